"""E6 coordinator side: node processes, frames, timeouts, restart, and the per-process node pool.

A *node* is a fresh interpreter (`/venv/bin/python engines/node_main.py`) started with a PYTHONHASHSEED
chosen by the coordinator, importing Cirq from VERIF_REPO.  Frames are 4-byte big-endian length + pickle.
The payloads under test travel as bytes inside the frames; only bytes the coordinator holds survive a
restart.

Pool.  Starting a node costs 3-5 s (cold import of five packages), a run costs tens of milliseconds, so
each process that executes runs (every forked worker of the runner, and the parent when it writes a replay
file) keeps the nodes it has started alive between runs, *indexed by hash seed*.  A run asks for "a node
with PYTHONHASHSEED = s" where s comes from its tape; it gets an idle one (after a `reset` op that drops
every held value and collects garbage) or a newly started one.  Which process serves a logical node is
therefore invisible to the run; its hash seed -- the thing the property is sensitive to -- is a function of
the tape.  A *restart* kills the process for real and hands the run a node with another seed; a replacement
for the killed seed is started in the background for later runs.

Anything a node reports that could depend on what earlier runs did in that interpreter (interned qubit
instances with cached hashes, resolver caches, functools caches) is kept out of the event log by
construction: nodes report verdicts (booleans) and type names only.

Failure classes.  status "sut" = an exception inside a call into the code under test that the property
says must succeed (returned to the check, which raises the violation); status "error", a timeout, or a dead
node = HarnessError (exit 2) -- except a node that died printing a Python traceback whose innermost frame is
under VERIF_REPO, which is reported as NodeDied(sut_traceback=True) so that the check can classify it as a
SUT-EXCEPTION with the traceback text.
"""
from __future__ import annotations

import atexit
import os
import pickle
import select
import signal
import struct
import subprocess
import sys
import tempfile
import time
from typing import Dict, List, Optional

from simkit import repoenv
from simkit.core import HarnessError

NODE_MAIN = os.path.join(os.path.dirname(os.path.abspath(__file__)), "node_main.py")
PYTHON = sys.executable

# the hash seeds a tape can choose from (index 0 and 1 are the shrink targets)
HASH_SEEDS = (0, 1, 4242, 31337)

START_TIMEOUT = float(os.environ.get("VERIF_NODE_START_TIMEOUT", "240"))
CALL_TIMEOUT = float(os.environ.get("VERIF_NODE_CALL_TIMEOUT", "90"))
MAX_LIVE = 5


class NodeDied(HarnessError):
    def __init__(self, msg: str, stderr_tail: str = "", sut_traceback: bool = False):
        super().__init__(msg)
        self.stderr_tail = stderr_tail
        self.sut_traceback = sut_traceback


class Node:
    """One interpreter process.  `call` is strictly request/response."""

    _counter = 0

    def __init__(self, hashseed: int):
        self.hashseed = hashseed
        Node._counter += 1
        self.serial = Node._counter          # identity of the *process* inside this coordinator
        self.ready = False
        self.dead = False
        self.calls = 0
        self.t_started = time.monotonic()
        env = {k: v for k, v in os.environ.items() if not k.startswith("VERIF_DIGESTS")}
        env["PYTHONHASHSEED"] = str(hashseed)
        env["VERIF_REPO"] = repoenv.repo_root()
        env.pop("PYTHONPATH", None)
        self._stderr = tempfile.TemporaryFile(prefix="verif-node-", dir=os.environ.get("TMPDIR") or "/dev/shm")
        self.proc = subprocess.Popen([PYTHON, "-X", "faulthandler", NODE_MAIN], stdin=subprocess.PIPE,
                                     stdout=subprocess.PIPE, stderr=self._stderr, env=env, close_fds=True,
                                     cwd=os.path.dirname(NODE_MAIN))
        self._rfd = self.proc.stdout.fileno()
        self._wfd = self.proc.stdin.fileno()
        self.hello = None

    # -- low level ----------------------------------------------------------------------------------
    def _stderr_tail(self, n: int = 6000) -> str:
        try:
            self._stderr.flush()
            size = os.fstat(self._stderr.fileno()).st_size
            self._stderr.seek(max(0, size - n))
            return self._stderr.read().decode("utf-8", "replace")
        except Exception:  # noqa: BLE001
            return ""

    def _died(self, during: str) -> NodeDied:
        self.dead = True
        try:
            self.proc.wait(timeout=5)
        except Exception:  # noqa: BLE001
            pass
        tail = self._stderr_tail()
        rc = self.proc.returncode
        sut = False
        if "Traceback (most recent call last)" in tail:
            root = repoenv.repo_root() + os.sep
            files = [ln.strip() for ln in tail.splitlines() if ln.strip().startswith('File "')]
            sut = bool(files) and files[-1].startswith(f'File "{root}')
        self.kill()
        return NodeDied(f"node (PYTHONHASHSEED={self.hashseed}) died with return code {rc} during {during}\n"
                        f"--- node stderr (tail) ---\n{tail[-2500:]}", stderr_tail=tail, sut_traceback=sut)

    def _read_exact(self, n: int, deadline: float, during: str) -> bytes:
        buf = bytearray()
        while len(buf) < n:
            remaining = deadline - time.monotonic()
            if remaining <= 0:
                tail = self._stderr_tail()
                self.kill()
                raise HarnessError(f"node (PYTHONHASHSEED={self.hashseed}) did not answer in time during "
                                   f"{during}\n--- node stderr (tail) ---\n{tail[-2500:]}")
            r, _, _ = select.select([self._rfd], [], [], min(remaining, 5.0))
            if not r:
                continue
            chunk = os.read(self._rfd, min(1 << 20, n - len(buf)))
            if not chunk:
                raise self._died(during)
            buf += chunk
        return bytes(buf)

    def _recv(self, timeout: float, during: str):
        deadline = time.monotonic() + timeout
        (n,) = struct.unpack(">I", self._read_exact(4, deadline, during))
        return pickle.loads(self._read_exact(n, deadline, during))

    def _send(self, obj, during: str) -> None:
        data = pickle.dumps(obj, protocol=4)
        data = struct.pack(">I", len(data)) + data
        view = memoryview(data)
        try:
            while view:
                k = os.write(self._wfd, view[:1 << 16])
                view = view[k:]
        except (BrokenPipeError, OSError):
            raise self._died(during) from None

    # -- API -------------------------------------------------------------------------------------------
    def wait_ready(self) -> None:
        if self.ready:
            return
        remaining = max(5.0, START_TIMEOUT - (time.monotonic() - self.t_started))
        hello = self._recv_hello(remaining)
        root = repoenv.repo_root()
        if hello.get("root") != root or not str(hello.get("cirq_file", "")).startswith(root + os.sep) \
                or str(hello.get("hashseed")) != str(self.hashseed):
            self.kill()
            raise HarnessError(f"node handshake mismatch: {hello!r} (wanted root={root} seed={self.hashseed})")
        self.hello = hello
        self.ready = True

    def _recv_hello(self, timeout: float):
        self._send({"op": "hello"}, "start-up")
        resp = self._recv(timeout, "start-up (import of the five packages)")
        if resp.get("status") != "ok":
            self.kill()
            raise HarnessError(f"node start-up failed: {resp!r}")
        return resp

    def call(self, req: dict, timeout: Optional[float] = None) -> dict:
        """Returns the response dict with status 'ok' or 'sut'.  Anything else raises HarnessError."""
        if self.dead:
            raise HarnessError("call on a dead node")
        self.wait_ready()
        during = f"op {req.get('op')!r}"
        try:
            self._send(req, during)
            resp = self._recv(timeout or CALL_TIMEOUT, during)
        except BaseException:
            # a half-finished exchange (timeout signal, keyboard interrupt): the stream is out of step
            if not self.dead:
                self.kill()
            raise
        self.calls += 1
        st = resp.get("status")
        if st in ("ok", "sut"):
            return resp
        raise HarnessError(f"node reported a harness-side error during {during}:\n{resp.get('tb')}")

    def kill(self) -> None:
        self.dead = True
        try:
            if self.proc.poll() is None:
                self.proc.kill()
        except Exception:  # noqa: BLE001
            pass
        for f in (self.proc.stdin, self.proc.stdout):
            try:
                f.close()
            except Exception:  # noqa: BLE001
                pass
        try:
            self.proc.wait(timeout=10)
        except Exception:  # noqa: BLE001
            pass
        try:
            self._stderr.close()
        except Exception:  # noqa: BLE001
            pass


class Pool:
    """Nodes of this process, indexed by hash seed."""

    def __init__(self):
        self.pid = os.getpid()
        self.idle: Dict[int, List[Node]] = {}
        self.in_use: List[Node] = []
        self.started = 0
        self.killed = 0
        self.start_seconds = 0.0
        self._lru: List[int] = []

    # -- bookkeeping ---------------------------------------------------------------------------------------
    def _live(self) -> int:
        return len(self.in_use) + sum(len(v) for v in self.idle.values())

    def _start(self, seed: int) -> Node:
        self.started += 1
        return Node(seed)

    def prestart(self, seeds) -> None:
        """Start nodes for these seeds without waiting for them (their import runs while we go on)."""
        for s in seeds:
            if self._live() >= MAX_LIVE:
                return
            if not self.idle.get(s) and not any(n.hashseed == s for n in self.in_use):
                self.idle.setdefault(s, []).append(self._start(s))

    def _trim(self, keep: int) -> None:
        """Keep at most MAX_LIVE processes: drop idle nodes of the least recently used seeds."""
        while self._live() > MAX_LIVE:
            victim = None
            for s in self._lru:
                if s != keep and self.idle.get(s):
                    victim = self.idle[s].pop()
                    break
            if victim is None:
                for s, lst in self.idle.items():
                    if s != keep and lst:
                        victim = lst.pop()
                        break
            if victim is None:
                return
            victim.kill()
            self.killed += 1

    # -- API -------------------------------------------------------------------------------------------
    def acquire(self, seed: int) -> Node:
        if not self.started:
            # first use in this process: the first three seeds are needed by nearly every run
            self.prestart([s for s in HASH_SEEDS[:3] if s != seed])
        node = None
        lst = self.idle.get(seed) or []
        while lst:
            cand = lst.pop()
            if not cand.dead and cand.proc.poll() is None:
                node = cand
                break
            cand.kill()
        if node is None:
            self._trim(keep=seed)
            node = self._start(seed)
        if seed in self._lru:
            self._lru.remove(seed)
        self._lru.append(seed)
        self.in_use.append(node)
        t0 = time.monotonic()
        was_ready = node.ready
        node.wait_ready()
        if not was_ready:
            self.start_seconds += time.monotonic() - t0
        resp = node.call({"op": "reset"})
        if resp.get("status") != "ok":
            raise HarnessError(f"reset failed: {resp!r}")
        return node

    def release(self, node: Node) -> None:
        if node in self.in_use:
            self.in_use.remove(node)
        if node.dead or node.proc.poll() is not None:
            node.kill()
            return
        self.idle.setdefault(node.hashseed, []).append(node)

    def restart(self, node: Node, new_seed: int) -> Node:
        """Kill `node` for real; the run continues on a node with `new_seed`."""
        old_seed = node.hashseed
        if node in self.in_use:
            self.in_use.remove(node)
        node.kill()
        self.killed += 1
        fresh = self.acquire(new_seed)
        # replacement for later runs, started in the background
        self.prestart([old_seed])
        return fresh

    def shutdown(self) -> None:
        if os.getpid() != self.pid:
            return
        for n in list(self.in_use):
            n.kill()
        self.in_use.clear()
        for lst in self.idle.values():
            for n in lst:
                n.kill()
        self.idle.clear()


_POOL: Optional[Pool] = None


def _shutdown_pool() -> None:
    global _POOL
    if _POOL is not None:
        _POOL.shutdown()
        _POOL = None


def pool() -> Pool:
    """The pool of *this* process (created lazily; a forked child never reuses its parent's nodes)."""
    global _POOL
    if _POOL is None or _POOL.pid != os.getpid():
        _POOL = Pool()
        atexit.register(_shutdown_pool)
        try:
            # forked multiprocessing workers leave through os._exit(): atexit does not run there, but
            # multiprocessing's own finalizers do
            from multiprocessing import util as _mpu
            _mpu.Finalize(None, _shutdown_pool, exitpriority=100)
        except Exception:  # noqa: BLE001
            pass
        # a worker that is terminated by the parent still takes its nodes with it (nodes also set
        # PR_SET_PDEATHSIG and exit on EOF of their stdin)
        try:
            prev = signal.getsignal(signal.SIGTERM)

            def _on_term(signum, frame, _prev=prev):
                _shutdown_pool()
                if callable(_prev):
                    _prev(signum, frame)
                else:
                    os._exit(143)

            signal.signal(signal.SIGTERM, _on_term)
        except Exception:  # noqa: BLE001 - not the main thread
            pass
    return _POOL
