"""Locate the code under test and make sure it, and not the release copy in
site-packages, is what gets imported.

VERIF_REPO (default /repo) is the tree that is verified.  There is no build
step: Cirq is pure Python, so "rebuild from the working tree" is an import with
the five package directories of that tree first on sys.path.
"""
from __future__ import annotations

import os
import sys

_THREAD_VARS = ("OMP_NUM_THREADS", "OPENBLAS_NUM_THREADS", "MKL_NUM_THREADS", "NUMEXPR_NUM_THREADS")
PACKAGES = ("cirq-core", "cirq-google", "cirq-ionq", "cirq-aqt", "cirq-pasqal")
VERIF_DIR = os.path.dirname(os.path.dirname(os.path.abspath(__file__)))


def repo_root() -> str:
    return os.path.realpath(os.environ.get("VERIF_REPO", "/repo"))


def reexec_with_fixed_hashseed() -> None:
    """Re-execute the interpreter with PYTHONHASHSEED=0 (once).

    Set iteration order inside Cirq (and inside the harness) must not depend on
    the per-process string-hash salt, or a seed would not be one execution.
    VERIF_HASHSEED overrides the value (the determinism self-test uses it to
    show that results do not depend on it either).
    """
    want = os.environ.get("VERIF_HASHSEED", "0")
    threads_ok = all(os.environ.get(k) == "1" for k in _THREAD_VARS)
    if os.environ.get("PYTHONHASHSEED") != want or not threads_ok:
        env = dict(os.environ)
        env["PYTHONHASHSEED"] = want
        # one BLAS/OpenMP thread per process: the runner already uses one process per core, and
        # thread pools inside 14 workers fight each other (a 64x64 matmul took 4 ms instead of 20 us)
        for k in _THREAD_VARS:
            env[k] = "1"
        os.execve(sys.executable, [sys.executable] + sys.argv, env)


def activate() -> str:
    """Put the working tree's packages first on sys.path; return the repo root."""
    root = repo_root()
    paths = [os.path.join(root, p) for p in PACKAGES]
    for p in reversed(paths):
        if p in sys.path:
            sys.path.remove(p)
        sys.path.insert(0, p)
    if VERIF_DIR not in sys.path:
        sys.path.insert(0, VERIF_DIR)
    # Hooks guard (no hooks exist at present; the name is reserved so that a
    # future hook is enabled in every check without further plumbing).
    os.environ.setdefault("QUANTUMLIB_CIRQ_VERIF", "1")
    # library warnings (complex64 normalisation, deprecations) are not verdicts; keep the output readable
    import warnings
    warnings.simplefilter("ignore")
    return root


def assert_working_tree(*modules) -> None:
    root = repo_root()
    for m in modules:
        f = os.path.realpath(getattr(m, "__file__", "") or "")
        if not f.startswith(root + os.sep):
            raise RuntimeError(
                f"HARNESS-ERROR: {m.__name__} imported from {f}, not from {root}"
            )


def repo_rev() -> str:
    import subprocess

    root = repo_root()
    try:
        rev = subprocess.run(
            ["git", "-C", root, "rev-parse", "--short", "HEAD"],
            capture_output=True, text=True, timeout=20,
        ).stdout.strip()
        dirty = subprocess.run(
            ["git", "-C", root, "status", "--porcelain", "--untracked-files=no"],
            capture_output=True, text=True, timeout=60,
        ).stdout.strip()
        return (rev or "unknown") + ("+dirty" if dirty else "")
    except Exception:
        return "unknown"
