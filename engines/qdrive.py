"""E4, part 3 -- drive a Cirq simulator over its whole branch tree and compare with QRef.

For one (circuit, simulator configuration, entry point):

  leaves   = explore(run one simulator call under a ScriptedPRNG)       (every draw sequence)
  P_sim(r) = sum of leaf weights with records r
  R_sim(r) = sum of leaf weights x leaf state (as a density matrix) with records r

and the reference gives P_ref(r), R_ref(r) = P_ref(r) rho_ref(r).  Oracles:

  *-DIST      P_sim(r) = P_ref(r) for every r, and the leaf weights sum to 1
  *-STATE     R_sim(r) = R_ref(r)   (collapse for measurements; exact unravelling for channels)
  *-PHASE     when the reference has exactly one pure state for r, every leaf with records r holds
              that vector including global phase (state-vector and CH-form simulators)
  *-INVALID-RHO  density-matrix leaves are Hermitian, trace one, positive semi-definite
  *-SAMPLE-MUTATES  step.sample(...) leaves the simulator state bit-identical
"""
from __future__ import annotations

import math
from typing import Any, Dict, List, Optional, Sequence, Tuple

import numpy as np

import cirq

from engines.qref import QRef, merge_by_records, Unsupported
from engines.scripted_prng import UnmodelledSeedReuse
from engines.scripted_prng import ScriptedPRNG, explore, TreeTooLarge, NondeterministicReplay
from simkit.core import HarnessError, Violation


# -- a seam for a source of nondeterminism inside the simulators ---------------------------------------------
# SimulationProductState.create_merged_state() (and .copy()) iterate over a *set of simulation-state
# objects*; those hash by identity, so the iteration order -- hence the order in which sub-states are
# merged and the axis permutation handed to transpose_to_qubit_order / reindex -- depends on memory
# addresses, i.e. on the process and its history.  Correct code gives the same answer for every order, but
# whether a defect shows then differs between the batch worker and the replay.  The harness therefore
# gives these objects a deterministic hash: a per-run sequence number assigned at first use.
_state_hash_counter = [0]


def install_deterministic_state_hash() -> None:
    from cirq.sim.simulation_state_base import SimulationStateBase

    if getattr(SimulationStateBase, "_verif_hash_installed", False):
        return

    def _det_hash(self):
        h = self.__dict__.get("_verif_hash")
        if h is None:
            _state_hash_counter[0] += 1
            h = _state_hash_counter[0]
            self.__dict__["_verif_hash"] = h
        return h

    SimulationStateBase.__hash__ = _det_hash
    SimulationStateBase._verif_hash_installed = True


def reset_state_hash_counter() -> None:
    _state_hash_counter[0] = 0


class SimConfig:
    def __init__(self, kind: str, dtype=np.complex64, split: bool = True, noise=None):
        self.kind = kind          # "sv" | "dm" | "clifford" | "stab-sampler" | "mux"
        self.dtype = dtype
        self.split = split
        self.noise = noise

    def make(self, prng):
        if self.kind == "sv":
            return cirq.Simulator(dtype=self.dtype, seed=prng, split_untangled_states=self.split, noise=self.noise)
        if self.kind == "dm":
            return cirq.DensityMatrixSimulator(dtype=self.dtype, seed=prng, split_untangled_states=self.split,
                                               noise=self.noise)
        if self.kind == "clifford":
            return cirq.CliffordSimulator(seed=prng, split_untangled_states=self.split)
        if self.kind == "stab-sampler":
            return cirq.StabilizerSampler(seed=prng)
        raise HarnessError(self.kind)

    def tol(self) -> float:
        if self.kind in ("clifford", "stab-sampler"):
            return 1e-6
        return 5e-5 if self.dtype == np.complex64 else 1e-6

    def describe(self) -> str:
        return f"{self.kind}/{np.dtype(self.dtype).name}/split={self.split}" + ("/noise" if self.noise is not None else "")


def records_key_from_result(result: cirq.Result, rep: int, channel_keys=()) -> Tuple:
    recs = []
    chans = []
    for key in sorted(result.records):
        arr = result.records[key]
        inst = tuple(tuple(int(x) for x in row) for row in arr[rep])
        if key in channel_keys:
            chans.append((key, tuple(int(row[0]) for row in arr[rep])))
        else:
            recs.append((key, inst))
    return (tuple(recs), tuple(chans))


def _rho_of(vec: np.ndarray) -> np.ndarray:
    v = np.asarray(vec, dtype=np.complex128).reshape(-1)
    return np.outer(v, v.conj())


def reference_distribution(circuit, qubit_order, initial_state=0, max_branches=4096, record_channels=True):
    ref = QRef(qubit_order, max_branches=max_branches, record_channels=record_channels)
    branches = ref.run(circuit, initial_state)
    return ref, branches


def _last_instance_key(merged_key, channel=False):
    """simulate() exposes only the last instance of each key in `.measurements`."""
    recs, chans = merged_key
    out = [(k, v[-1]) for k, v in recs]
    out += [(k, (v[-1],)) for k, v in chans]
    return tuple(sorted(out))


def check_run(P: str, circuit, cfg: SimConfig, reps: int, ctx, max_leaves: int,
              entry: str = "run", channel_keys=(), ref_circuit=None, param_resolver=None, stats=None,
              int_seed=None, sweep_points: int = 1) -> int:
    """Entry points run / run_sweep / sample: the joint distribution of Result.records."""
    qubits = sorted(circuit.all_qubits())
    ref_c = ref_circuit if ref_circuit is not None else circuit
    try:
        _, branches = reference_distribution(ref_c, sorted(ref_c.all_qubits()) or qubits,
                                             record_channels=(cfg.kind != "dm"))
    except Unsupported as e:
        raise HarnessError(f"generator emitted something the reference does not model: {e}")
    merged = merge_by_records(branches)
    p_ref = {k: v[0] for k, v in merged.items()}
    if cfg.kind == "stab-sampler":
        # StabilizerSampler returns ResultDict(measurements=...): one instance per key (the last one);
        # compare what it exposes
        p_last: Dict[Tuple, float] = {}
        for k, v in p_ref.items():
            recs, chans = k
            kk = (tuple((key, (insts[-1],)) for key, insts in recs), chans)
            p_last[kk] = p_last.get(kk, 0.0) + v
        p_ref = p_last

    def leaf_with(seed):
        if entry == "sample":
            return cirq.sample(circuit, repetitions=reps, dtype=cfg.dtype, seed=seed, noise=cfg.noise,
                               param_resolver=param_resolver)
        sim = cfg.make(seed)
        if entry == "run_sweep":
            if sweep_points > 1:
                # several sweep points over a symbol the circuit does not use: independent samples, all returned
                return sim.run_sweep(circuit, params=cirq.Points("unused_symbol", list(range(sweep_points))),
                                     repetitions=reps)
            return sim.run_sweep(circuit, params=param_resolver or cirq.ParamResolver({}), repetitions=reps)[0]
        return sim.run(circuit, param_resolver=param_resolver, repetitions=reps)

    def leaf(prng: ScriptedPRNG):
        if int_seed is None:
            return leaf_with(prng)
        # the seed given as an integer: one pseudo-random stream, however often the library re-parses it
        from engines.scripted_prng import int_seeds_scripted
        with int_seeds_scripted(prng):
            return leaf_with(int_seed)

    try:
        leaves = explore(leaf, max_leaves)
    except TreeTooLarge:
        ctx.probe("tree-too-large")
        return 0
    except UnmodelledSeedReuse:
        ctx.probe("int-seed:unmodelled-reuse")
        return 0
    tol = cfg.tol()
    _count_draws(leaves, stats, ctx)
    w_sim: Dict[Tuple, float] = {}
    total = 0.0
    for w, result, _trace in leaves:
        if isinstance(result, (list, tuple)):
            if len(result) != sweep_points:
                raise Violation(f"{P}-DIST", f"[{cfg.describe()}] run_sweep over {sweep_points} points returned "
                                             f"{len(result)} results\n{circuit}")
            keys = tuple(records_key_from_result(res_i, r, channel_keys) for res_i in result for r in range(reps))
        else:
            keys = tuple(records_key_from_result(result, r, channel_keys) for r in range(reps))
        w_sim[keys] = w_sim.get(keys, 0.0) + w
        total += w
    n = len(leaves)
    if abs(total - 1.0) > tol * max(4, n):
        raise Violation(f"{P}-DIST", f"[{cfg.describe()} {entry} reps={reps}] leaf weights sum to {total:.9f}, not 1: "
                                     f"the probabilities offered to the generator are not a distribution over the "
                                     f"explored outcomes ({n} leaves)\n{circuit}")
    for keys, w in sorted(w_sim.items()):
        expect = 1.0
        for k in keys:
            expect *= p_ref.get(k, 0.0)
        if abs(w - expect) > tol * max(4, math.sqrt(n)):
            raise Violation(f"{P}-DIST",
                            f"[{cfg.describe()} {entry} reps={reps}] records {_fmt_keys(keys)} have probability "
                            f"{w:.7f} under the simulator but {expect:.7f} by the Born rule "
                            f"(reference support: {[(_fmt_key(k), round(p, 6)) for k, p in sorted(p_ref.items())][:12]})\n{circuit}")
    return n


def _count_draws(leaves, stats, ctx=None) -> None:
    if ctx is not None:
        n = {"choice": 0, "randint": 0, "uniform<cum": 0}
        for _w, _res, trace in leaves:
            for kind, _p, _o in trace:
                n[kind] = n.get(kind, 0) + 1
        for k, v in n.items():
            if v:
                ctx.probe("scripted-draws:" + k.replace("<cum", ""), v)
    if stats is None:
        return
    for _w, _res, trace in leaves:
        for kind, probs, _o in trace:
            if kind == "uniform<cum":
                stats["uniform"] = stats.get("uniform", 0) + 1
            elif kind == "choice":
                stats["choice"] = stats.get("choice", 0) + 1
            elif kind == "randint":
                stats["randint"] = stats.get("randint", 0) + 1


def _fmt_key(k) -> str:
    recs, chans = k
    s = ",".join(f"{key}={'|'.join(''.join(map(str, inst)) for inst in insts)}" for key, insts in recs)
    if chans:
        s += ";" + ",".join(f"{key}~{list(v)}" for key, v in chans)
    return s or "-"


def _fmt_keys(keys) -> str:
    return "[" + " / ".join(_fmt_key(k) for k in keys) + "]"


def _leaf_state(cfg: SimConfig, result, qubit_order) -> Tuple[np.ndarray, Optional[np.ndarray]]:
    """(density matrix, state vector or None) of a simulate() result, in the given qubit order."""
    if cfg.kind == "sv":
        v = np.asarray(result.final_state_vector, dtype=np.complex128)
        return _rho_of(v), v
    if cfg.kind == "dm":
        rho = np.asarray(result.final_density_matrix, dtype=np.complex128)
        return rho, None
    if cfg.kind == "clifford":
        v = np.asarray(result.final_state.state_vector(), dtype=np.complex128)
        return _rho_of(v), v
    raise HarnessError(cfg.kind)


def check_rho_valid(P: str, rho: np.ndarray, tol: float, where: str) -> None:
    if not np.allclose(rho, rho.conj().T, atol=tol):
        raise Violation(f"{P}-INVALID-RHO", f"{where}: density matrix is not Hermitian")
    tr = np.trace(rho).real
    if abs(tr - 1) > tol * 4:
        raise Violation(f"{P}-INVALID-RHO", f"{where}: trace is {tr:.8f}")
    ev = np.linalg.eigvalsh((rho + rho.conj().T) / 2)
    if ev.min() < -tol * 4:
        raise Violation(f"{P}-INVALID-RHO", f"{where}: eigenvalue {ev.min():.3e} < 0")


def check_simulate(P: str, circuit, cfg: SimConfig, ctx, max_leaves: int, qubit_order=None, initial_state=0,
                   ref_initial=None, stepwise: bool = False, sample_in_steps: bool = False,
                   ref_circuit=None, phase_exact: bool = True, stats=None, boundary_call=None) -> int:
    """Entry points simulate / simulate_moment_steps: joint law of (measurements, final state)."""
    qubit_order = list(qubit_order or sorted(circuit.all_qubits()))
    ref_c = ref_circuit if ref_circuit is not None else circuit
    try:
        ref = QRef(qubit_order, record_channels=(cfg.kind != "dm"))
        branches = ref.run(ref_c, initial_state if ref_initial is None else ref_initial)
    except Unsupported as e:
        raise HarnessError(f"generator emitted something the reference does not model: {e}")
    # group the reference by what simulate() exposes: the last instance of every key
    ref_groups: Dict[Tuple, List] = {}
    for b in branches:
        k = _last_instance_key(b.record_key())
        g = ref_groups.setdefault(k, [0.0, None, []])
        g[0] += b.prob
        g[1] = b.prob * b.rho if g[1] is None else g[1] + b.prob * b.rho
        g[2].append(b.psi)
    tol = cfg.tol()
    init_snapshot = np.array(initial_state, copy=True) if isinstance(initial_state, np.ndarray) else None

    def check_init_untouched(where: str) -> None:
        # the caller owns the array it passed as initial_state; every leaf (and a user's second call)
        # starts from the same object
        if init_snapshot is not None and not np.array_equal(init_snapshot, initial_state):
            raise Violation(f"{P}-INITIAL-STATE-MUTATED",
                            f"[{cfg.describe()} {where}] the array passed as initial_state "
                            f"(dtype {initial_state.dtype}) was modified by the simulator\n{circuit}")

    def leaf(prng: ScriptedPRNG):
        try:
            return leaf_inner(prng)
        finally:
            check_init_untouched("simulate")

    def leaf_inner(prng: ScriptedPRNG):
        sim = cfg.make(prng)
        if not stepwise:
            res = sim.simulate(circuit, qubit_order=qubit_order, initial_state=initial_state)
            meas = {k: tuple(int(x) for x in v) for k, v in res.measurements.items()}
            rho, vec = _leaf_state(cfg, res, qubit_order)
            return meas, rho, vec
        meas: Dict[str, Tuple[int, ...]] = {}
        last = None
        for i, step in enumerate(sim.simulate_moment_steps(circuit, qubit_order=qubit_order,
                                                           initial_state=initial_state)):
            for k, v in step.measurements.items():
                meas[k] = tuple(int(x) for x in v)
            if sample_in_steps and cfg.kind in ("sv", "dm") and i % 2 == 0:
                before = _step_state(cfg, step)
                sampled = step.sample(qubit_order[:2], repetitions=1, seed=prng)
                after = _step_state(cfg, step)
                if before.shape != after.shape or not np.array_equal(before, after):
                    raise Violation(f"{P}-SAMPLE-MUTATES",
                                    f"[{cfg.describe()}] step.sample() changed the simulator state at moment {i}\n{circuit}")
                _ = sampled
            last = step
        rho, vec = _leaf_step_state(cfg, last)
        return meas, rho, vec

    try:
        leaves = explore(leaf, max_leaves)
    except TreeTooLarge:
        ctx.probe("tree-too-large")
        return 0
    n = len(leaves)
    _count_draws(leaves, stats, ctx)
    # boundary draw (buggify site `boundary-u`): a uniform draw so close to 1 that, after rounding, no
    # Kraus branch is selected.  The documented behaviour is to fall back to the most likely branch, so
    # the leaf must still be a normalised state that one of the regular branches also produces.
    if boundary_call is not None and cfg.kind == "sv" and stats is not None and stats.get("uniform"):
        prng = ScriptedPRNG([])
        prng.force_fallback_call = boundary_call
        meas_b, rho_b, vec_b = leaf(prng)
        if prng.fallback_forced:
            stats["fallback"] = stats.get("fallback", 0) + 1
            nrm = float(np.trace(rho_b).real)
            if abs(nrm - 1) > tol * 8:
                raise Violation(f"{P}-BRANCH", f"[{cfg.describe()}] after a boundary uniform draw (fallback branch) "
                                               f"the state has norm^2 {nrm:.6f}\n{circuit}")
            kb = tuple(sorted(meas_b.items()))
            cands = [r for _w, (m2, r, _v), _t in leaves]
            if not any(float(np.max(np.abs(r - rho_b))) <= tol * 20 for r in cands):
                # the fallback leaf continues with its own later draws (first viable outcome each); it must
                # coincide with the regular leaf that took the same branch at the forced draw
                raise Violation(f"{P}-BRANCH", f"[{cfg.describe()}] the fallback branch taken after a boundary "
                                               f"uniform draw leads to a state that no regular branch produces "
                                               f"(measurements {dict(kb)})\n{circuit}")
    sim_groups: Dict[Tuple, List] = {}
    total = 0.0
    for w, (meas, rho, vec), _trace in leaves:
        if cfg.kind == "dm":
            # a branch of probability w is renormalised by 1/w, which amplifies rounding by the same factor
            check_rho_valid(P, rho, tol / max(min(w, 1.0), 1e-6), f"[{cfg.describe()}] final state of a leaf")
        k = tuple(sorted(meas.items()))
        g = sim_groups.setdefault(k, [0.0, None, []])
        g[0] += w
        g[1] = w * rho if g[1] is None else g[1] + w * rho
        g[2].append(vec)
        total += w
    if sample_in_steps:
        # extra sample draws multiply into the leaf weights but their outcomes are not recorded:
        # summed over, they contribute factor 1, so the grouped sums are unaffected
        pass
    if abs(total - 1.0) > tol * max(4, n):
        raise Violation(f"{P}-DIST", f"[{cfg.describe()} simulate] leaf weights sum to {total:.9f}, not 1\n{circuit}")
    for k in sorted(set(sim_groups) | set(ref_groups)):
        ws = sim_groups.get(k, [0.0, None, []])
        wr = ref_groups.get(k, [0.0, None, []])
        if abs(ws[0] - wr[0]) > tol * max(4, math.sqrt(n)):
            raise Violation(f"{P}-DIST",
                            f"[{cfg.describe()} simulate] measurements {dict(k)} have probability {ws[0]:.7f} under "
                            f"the simulator but {wr[0]:.7f} by the Born rule\n{circuit}")
        if ws[1] is None or wr[1] is None:
            continue
        err = float(np.max(np.abs(ws[1] - wr[1])))
        if err > tol * max(4, math.sqrt(n)):
            raise Violation(f"{P}-STATE",
                            f"[{cfg.describe()} simulate] for measurements {dict(k)} the probability-weighted "
                            f"post-run state differs from the reference by {err:.3e} (max abs entry); "
                            f"P={ws[0]:.6f}\n{circuit}")
        # global phase, where it is defined: one pure reference state for this outcome
        if phase_exact and len(wr[2]) == 1 and wr[2][0] is not None and cfg.kind in ("sv", "clifford"):
            for vec in ws[2]:
                if vec is None:
                    continue
                perr = float(np.max(np.abs(np.asarray(vec).reshape(-1) - wr[2][0])))
                if perr > tol * 8:
                    raise Violation(f"{P}-PHASE",
                                    f"[{cfg.describe()} simulate] for measurements {dict(k)} the state vector "
                                    f"differs from the reference (incl. global phase) by {perr:.3e}\n"
                                    f"sim={np.round(np.asarray(vec).reshape(-1), 4)}\nref={np.round(wr[2][0], 4)}\n{circuit}")
    return n


def _step_state(cfg: SimConfig, step) -> np.ndarray:
    if cfg.kind == "sv":
        return np.array(step.state_vector(copy=True))
    return np.array(step.density_matrix(copy=True))


def _leaf_step_state(cfg: SimConfig, step):
    if cfg.kind == "sv":
        v = np.asarray(step.state_vector(copy=True), dtype=np.complex128)
        return _rho_of(v), v
    if cfg.kind == "dm":
        return np.asarray(step.density_matrix(copy=True), dtype=np.complex128), None
    if cfg.kind == "clifford":
        v = np.asarray(step.state.state_vector(), dtype=np.complex128)
        return _rho_of(v), v
    raise HarnessError(cfg.kind)


def check_sweep(P: str, circuit, sweep, cfg: SimConfig, ctx, max_leaves: int, qubit_order=None,
                ref_circuit_for=None, stats=None) -> int:
    """simulate_sweep over a parameterised circuit: every sweep point is an independent simulation of the
    resolved circuit (state must not leak between the copies of the simulation state made per point)."""
    qubit_order = list(qubit_order or sorted(circuit.all_qubits()))
    resolvers = list(cirq.to_resolvers(sweep))
    refs = []
    try:
        for r in resolvers:
            resolved = cirq.resolve_parameters(circuit, r)
            rc = ref_circuit_for(resolved) if ref_circuit_for is not None else resolved
            ref = QRef(qubit_order, record_channels=(cfg.kind != "dm"))
            groups: Dict[Tuple, List] = {}
            for b in ref.run(rc, 0):
                k = _last_instance_key(b.record_key())
                g = groups.setdefault(k, [0.0, None])
                g[0] += b.prob
                g[1] = b.prob * b.rho if g[1] is None else g[1] + b.prob * b.rho
            refs.append(groups)
    except Unsupported as e:
        raise HarnessError(f"generator emitted something the reference does not model: {e}")
    tol = cfg.tol()

    def leaf(prng: ScriptedPRNG):
        sim = cfg.make(prng)
        out = []
        for res in sim.simulate_sweep(circuit, params=sweep, qubit_order=qubit_order):
            meas = tuple(sorted((k, tuple(int(x) for x in v)) for k, v in res.measurements.items()))
            rho, _vec = _leaf_state(cfg, res, qubit_order)
            out.append((meas, rho))
        return out

    try:
        leaves = explore(leaf, max_leaves)
    except TreeTooLarge:
        ctx.probe("tree-too-large")
        return 0
    n = len(leaves)
    _count_draws(leaves, stats, ctx)
    for i in range(len(resolvers)):
        got: Dict[Tuple, List] = {}
        for w, out, _t in leaves:
            meas, rho = out[i]
            g = got.setdefault(meas, [0.0, None])
            g[0] += w
            g[1] = w * rho if g[1] is None else g[1] + w * rho
        for k in sorted(set(got) | set(refs[i]), key=repr):
            g = got.get(k, [0.0, None])
            e = refs[i].get(k, [0.0, None])
            if abs(g[0] - e[0]) > tol * max(4, math.sqrt(n)):
                raise Violation(f"{P}-DIST", f"[{cfg.describe()} simulate_sweep] sweep point {i} ({resolvers[i]}): "
                                             f"measurements {dict(k)} have probability {g[0]:.7f}, the resolved circuit "
                                             f"simulated on its own gives {e[0]:.7f}\n{circuit}")
            if g[1] is not None and e[1] is not None:
                err = float(np.max(np.abs(g[1] - e[1])))
                if err > tol * max(4, math.sqrt(n)):
                    raise Violation(f"{P}-STATE", f"[{cfg.describe()} simulate_sweep] sweep point {i} ({resolvers[i]}): "
                                                  f"final state differs from simulating the resolved circuit on its own "
                                                  f"by {err:.3e} (measurements {dict(k)})\n{circuit}")
    return n


def check_mux_final_density_matrix(P: str, circuit, noise, dtype, ctx, qubit_order=None, initial_state=0,
                                   ref_initial=None, ref_circuit=None) -> None:
    """cirq.final_density_matrix(program, noise=...): no draws (measurements are dephased); one call."""
    qubit_order = list(qubit_order or sorted(circuit.all_qubits()))
    try:
        ref = QRef(qubit_order, record_channels=False)
        branches = ref.run(ref_circuit if ref_circuit is not None else circuit,
                           initial_state if ref_initial is None else ref_initial)
    except Unsupported as e:
        raise HarnessError(f"generator emitted something the reference does not model: {e}")
    want = sum(b.prob * b.rho for b in branches)
    got = np.asarray(cirq.final_density_matrix(circuit, noise=noise, initial_state=initial_state,
                                               qubit_order=qubit_order, dtype=dtype), dtype=np.complex128)
    tol = 5e-5 if dtype == np.complex64 else 1e-6
    check_rho_valid(P, got, tol * 4, "cirq.final_density_matrix")
    err = float(np.max(np.abs(got - want)))
    if err > tol * 8:
        raise Violation(f"{P}-STATE", f"[cirq.final_density_matrix noise={noise!r} dtype={np.dtype(dtype).name}] differs "
                                      f"from the reference channel evolution by {err:.3e}\n{circuit}")
