"""E5 reference model: a circuit is a list of lists of abstract operations.

Nothing here imports cirq.  An abstract operation is `(uid, qubits, mkeys,
ckeys)` (plus the parameter names and an `invertible` flag needed by two
queries); a moment is a list of them; a circuit is a list of moments.

Two kinds of entry points:

* **exact transitions** for every call whose result the documentation fixes
  completely (single-operation `insert`/`append` with each of the five
  strategies as worded in `insert_strategy.py`, Moment inserts, `__setitem__`,
  `__delitem__`, `*=`, `+` of circuits, `batch_remove`, `batch_replace`,
  `batch_insert_into`, `clear_operations_touching`, `batch_insert` of
  single-operation entries, `zip`, `** -1`, `transform_qubits`, slicing ...).
  They return the new layout or raise `ModelRaises(kinds)` when the
  documentation says the call fails (and for the documented all-or-nothing
  methods leaves the circuit unchanged).

* **constraint checkers** for calls the documentation does not fix completely
  (multi-operation inserts, `insert_into_range`, `insert_at_frontier`,
  `concat_ragged`, the prefix of `__radd__`): they take the layout before,
  the layout the real circuit has after, and the call, and return a list of
  `(violation class, message)` for every constraint *the property states*
  that is broken -- deliberately weaker than "equals what the implementation
  does".  The caller then adopts the real layout.

Accepted alternative: a single operation inserted with EARLIEST whose preceding moment
conflicts (or whose index is 0) goes, by the strategy's text, "into a new moment at the desired
location"; the implementation deliberately adds it to the existing moment *at* the insert
location when it is conflict-free there (`_can_add_op_at(k, op)`), which the property statement
acknowledges (EARLIEST may share the moment at the insertion point).  Both placements are
accepted (`insert_single_options`); neither breaks the order clause.
"""
from __future__ import annotations

from typing import Dict, FrozenSet, Iterable, List, Optional, Sequence, Tuple

NEW = "NEW"
NEW_THEN_INLINE = "NEW_THEN_INLINE"
INLINE = "INLINE"
EARLIEST = "EARLIEST"
LATEST = "LATEST"
STRATEGIES = (EARLIEST, NEW, INLINE, NEW_THEN_INLINE, LATEST)


class AOp:
    """Abstract operation."""

    __slots__ = ("uid", "qubits", "qset", "mkeys", "ckeys", "params", "invertible")

    def __init__(self, uid: str, qubits: Sequence[int], mkeys: Iterable[str] = (),
                 ckeys: Iterable[str] = (), params: Iterable[str] = (), invertible: bool = True):
        self.uid = uid
        self.qubits = tuple(qubits)
        self.qset = frozenset(qubits)
        self.mkeys = frozenset(mkeys)
        self.ckeys = frozenset(ckeys)
        self.params = frozenset(params)
        self.invertible = invertible

    def __repr__(self) -> str:
        return self.uid

    def describe(self) -> str:
        s = self.uid + "q" + "".join(map(str, self.qubits))
        if self.mkeys:
            s += "M" + "".join(sorted(self.mkeys))
        if self.ckeys:
            s += "C" + "".join(sorted(self.ckeys))
        return s


class MMoment(list):
    """A Moment passed as an item of an operation tree (inserted intact)."""


Layout = List[List[AOp]]


class ModelRaises(Exception):
    """The documentation says this call fails.  `kinds`: acceptable exception type names."""

    def __init__(self, kinds: Tuple[str, ...], why: str):
        super().__init__(why)
        self.kinds = kinds
        self.why = why


# ----------------------------------------------------------------------------------------------
# conflicts

def qconf(a: AOp, b: AOp) -> bool:
    return not a.qset.isdisjoint(b.qset)


def kconf(a: AOp, b: AOp) -> bool:
    """Measurement key vs measurement/control key (control vs control commutes)."""
    if not (a.mkeys or b.mkeys):
        return False
    return bool(a.mkeys & b.mkeys or a.mkeys & b.ckeys or a.ckeys & b.mkeys)


def conf(a: AOp, b: AOp) -> bool:
    return qconf(a, b) or kconf(a, b)


def conf_moment(op: AOp, moment: Sequence[AOp]) -> bool:
    return any(conf(op, o) for o in moment)


def qconf_moment(op: AOp, moment: Sequence[AOp]) -> bool:
    return any(qconf(op, o) for o in moment)


def overlap_in(moment: Sequence[AOp]) -> Optional[Tuple[AOp, AOp]]:
    seen: Dict[int, AOp] = {}
    for o in moment:
        for q in o.qubits:
            if q in seen:
                return seen[q], o
            seen[q] = o
    return None


# ----------------------------------------------------------------------------------------------
# small helpers

def copy_layout(L: Layout) -> Layout:
    return [list(m) for m in L]


def uids_of(L: Layout) -> List[str]:
    return sorted(o.uid for m in L for o in m)


def layout_key(L: Layout) -> List[List[str]]:
    """Canonical form: order inside a moment is not part of the property."""
    return [sorted(o.uid for o in m) for m in L]


def same_layout(a: Layout, b: Layout) -> bool:
    return layout_key(a) == layout_key(b)


def show(L: Layout) -> str:
    return "[" + " | ".join((",".join(sorted(o.describe() for o in m)) or "-") for m in L) + "]"


def clamp_index(n: int, index: int) -> int:
    """Python-list-like insertion index: negative counts from the end, then clamp to 0..n."""
    k = index if index >= 0 else n + index
    return max(0, min(k, n))


def flatten_items(items: Sequence) -> List[AOp]:
    out: List[AOp] = []
    for it in items:
        if isinstance(it, MMoment):
            out.extend(it)
        else:
            out.append(it)
    return out


# ----------------------------------------------------------------------------------------------
# exact transitions

def insert_single(L: Layout, index: int, op: AOp, strategy: str, join: bool = False) -> Tuple[Layout, int, int]:
    """One operation, by the text of insert_strategy.py.  Returns (layout, p, k):
    p = moment index the operation is in, k = clamped insertion index.  `join`: take the
    accepted alternative for EARLIEST (see module docstring) where it applies."""
    n = len(L)
    k = clamp_index(n, index)
    new = copy_layout(L)
    if strategy in (NEW, NEW_THEN_INLINE):
        # "Always creates a new moment at the desired insert location" / "Creates a new moment
        # at the desired insert location for the first operation"
        new.insert(k, [op])
        return new, k, k
    if strategy == INLINE:
        # "Attempts to add the operation into the moment just before the desired insert
        # location.  But, if there's already an existing operation affecting any of the qubits
        # [Circuit.insert: or the same measurement/control key], or the desired index is 0, a
        # new moment is created and inserted at the desired location instead."  Too small an
        # index is 0, too big is "the last moment" -- both are what clamping gives.
        if k > 0 and not conf_moment(op, L[k - 1]):
            new[k - 1].append(op)
            return new, k - 1, k
        new.insert(k, [op])
        return new, k, k
    if strategy == EARLIEST:
        # "Scans backward from the insert location until a moment with [conflicting] operations
        # is found.  The operation is added into the moment just after that location.  If the
        # scan reaches the start ... added into the first moment.  Never added into moments
        # after the insert location.  If the moment just before the insert location has
        # conflicting operations, or the insert index is 0, then the operation is inserted into
        # a new moment at the desired location."
        j = k - 1
        while j >= 0 and not conf_moment(op, L[j]):
            j -= 1
        if j == k - 1:
            if join and k < n and not conf_moment(op, L[k]):
                new[k].append(op)
                return new, k, k
            new.insert(k, [op])
            return new, k, k
        new[j + 1].append(op)
        return new, j + 1, k
    if strategy == LATEST:
        # "Scans forward from the insert location until a moment with [conflicting] operations
        # is found.  The operation is added into the moment just before that conflicting
        # location.  If the scan reaches the end ... added into the last moment of the circuit
        # if possible, otherwise in a new moment at the end.  Never added into moments before
        # the initial insert location.  If the moment at the initial insert location has
        # conflicting operations, the operation is added into a new moment before it."
        if k == n:
            new.append([op])
            return new, n, k
        j = k
        while j < n and not conf_moment(op, L[j]):
            j += 1
        if j == k:
            new.insert(k, [op])
            return new, k, k
        new[j - 1].append(op)
        return new, j - 1, k
    raise ValueError(strategy)


def insert_single_options(L: Layout, index: int, op: AOp, strategy: str) -> List[Tuple[Layout, int, int]]:
    """Every accepted outcome: the documented one first, then the EARLIEST alternative if it differs."""
    first = insert_single(L, index, op, strategy)
    out = [first]
    if strategy == EARLIEST:
        alt = insert_single(L, index, op, strategy, join=True)
        if not same_layout(alt[0], first[0]):
            out.append(alt)
    return out


def insert_moment(L: Layout, index: int, ops: Sequence[AOp]) -> Tuple[Layout, int]:
    """"Moments within the operation tree are inserted intact" -- at the insert location."""
    k = clamp_index(len(L), index)
    new = copy_layout(L)
    new.insert(k, list(ops))
    return new, k


def setitem_int(L: Layout, i: int, ops: Sequence[AOp]) -> Layout:
    new = copy_layout(L)
    if not -len(L) <= i < len(L):
        raise ModelRaises(("IndexError",), "moment index out of range")
    new[i] = list(ops)
    return new


def setitem_slice(L: Layout, sl: slice, moments: Sequence[Sequence[AOp]]) -> Layout:
    new = copy_layout(L)
    try:
        new[sl] = [list(m) for m in moments]
    except ValueError as e:  # extended slice of the wrong size: plain list semantics
        raise ModelRaises(("ValueError",), str(e))
    return new


def delitem(L: Layout, key) -> Layout:
    new = copy_layout(L)
    try:
        del new[key]
    except IndexError as e:
        raise ModelRaises(("IndexError",), str(e))
    return new


def repeat(L: Layout, n: int) -> Layout:
    return [list(m) for _ in range(max(0, n)) for m in L]


def concat(L: Layout, other: Layout) -> Layout:
    return copy_layout(L) + copy_layout(other)


def batch_remove(L: Layout, removals: Sequence[Tuple[int, AOp]]) -> Layout:
    """All listed operations must be present "or the edit will fail (without making any
    changes)".  An operation is identified by value; the uid tag makes values unique."""
    new = copy_layout(L)
    for i, op in removals:
        if not -len(new) <= i < len(new):
            raise ModelRaises(("IndexError",), "moment that doesn't exist")
        if not any(o.uid == op.uid for o in new[i]):
            raise ModelRaises(("ValueError",), "operation not present")
        first = next(x for x, o in enumerate(new[i]) if o.uid == op.uid)
        del new[i][first]          # one entry removes one operation
    return new


def batch_replace(L: Layout, repl: Sequence[Tuple[int, AOp, AOp]]) -> Layout:
    new = copy_layout(L)
    for i, old, newop in repl:
        if not -len(new) <= i < len(new):
            raise ModelRaises(("IndexError",), "moment that doesn't exist")
        if not any(o.uid == old.uid for o in new[i]):
            raise ModelRaises(("ValueError",), "operation not present")
        first = next(x for x, o in enumerate(new[i]) if o.uid == old.uid)
        new[i][first] = newop
        if overlap_in(new[i]):
            raise ModelRaises(("ValueError",), "replacement overlaps")
    return new


def batch_insert_into(L: Layout, ins: Sequence[Tuple[int, Sequence[AOp]]]) -> Layout:
    new = copy_layout(L)
    for i, ops in ins:
        if not -len(new) <= i < len(new):
            raise ModelRaises(("IndexError",), "moment index that doesn't exist")
        for op in ops:
            if qconf_moment(op, new[i]):
                raise ModelRaises(("ValueError",), "collides with an existing operation")
            new[i].append(op)
    return new


def clear_touching(L: Layout, qubits: Iterable[int], indices: Iterable[int]) -> Layout:
    qs = frozenset(qubits)
    new = copy_layout(L)
    for i in indices:
        if 0 <= i < len(new):
            new[i] = [o for o in new[i] if o.qset.isdisjoint(qs)]
    return new


def zip_layouts(Ls: Sequence[Layout], right: bool) -> Layout:
    n = max([len(L) for L in Ls], default=0)
    out: Layout = []
    for k in range(n):
        m: List[AOp] = []
        for L in Ls:
            j = k - (n - len(L)) if right else k
            if 0 <= j < len(L):
                m.extend(L[j])
        if overlap_in(m):
            raise ModelRaises(("ValueError",), f"overlapping operations at moment {k}")
        out.append(m)
    return out


def slice_layout(L: Layout, sl: slice, qubits: Optional[Iterable[int]] = None) -> Layout:
    sel = copy_layout(L)[sl]
    if qubits is None:
        return sel
    qs = frozenset(qubits)
    return [[o for o in m if not o.qset.isdisjoint(qs)] for m in sel]


def batch_insert_exact(L: Layout, insertions: Sequence[Tuple[int, object]],
                       joins: Optional[Sequence[bool]] = None) -> Layout:
    """batch_insert where every entry is one operation or one Moment and all indices differ.

    "All insertions are done with the strategy EARLIEST"; "if you insert an operation at index
    2 and at index 4, but the insert at index 2 causes a new moment to be created, then the
    insert at 4 will actually occur at index 5 to account for the shift from the new moment."
    So: indices refer to the circuit before the call; later ones move by the number of moments
    the earlier ones created.  `joins[i]`: take the accepted EARLIEST alternative for the i-th
    entry (in index order).
    """
    cur = copy_layout(L)
    shift = 0
    n0 = len(L)
    # a negative index means what it means for insert(): counted from the end of the circuit
    # as it is before the call
    insertions = [(clamp_index(n0, i), item) for i, item in insertions]
    for e, (i, item) in enumerate(sorted(insertions, key=lambda e: e[0])):
        at = i + shift
        before = len(cur)
        if isinstance(item, MMoment):
            cur, _ = insert_moment(cur, at, item)
        else:
            cur, _, _ = insert_single(cur, at, item, EARLIEST, join=bool(joins and joins[e]))
        shift += len(cur) - before
    return cur


def batch_insert_options(L: Layout, insertions: Sequence[Tuple[int, object]]) -> List[Layout]:
    """All accepted outcomes (documented placement first), each entry free to take the alternative."""
    n = len(insertions)
    out: List[Layout] = []
    for mask in range(1 << n):
        lay = batch_insert_exact(L, insertions, [bool(mask >> e & 1) for e in range(n)])
        if not any(same_layout(lay, o) for o in out):
            out.append(lay)
    return out


# ----------------------------------------------------------------------------------------------
# constraint checkers

Problem = Tuple[str, str]


def positions(N: Layout) -> Dict[str, List[int]]:
    pos: Dict[str, List[int]] = {}
    for j, m in enumerate(N):
        for o in m:
            pos.setdefault(o.uid, []).append(j)
    return pos


def all_alignments(L: Layout, N: Layout, inserted: FrozenSet[str], cap: int = 64) -> List[List[int]]:
    """Every way to map the moments of L to moments of N, in order, such that N without the
    inserted operations has exactly L's content there and every unmapped moment of N holds
    inserted operations only.  Non-empty moments map uniquely; an empty moment of L can be any
    moment of N that holds no existing operation, so several alignments may exist and a
    constraint is only broken if it is broken under all of them.  [] if the existing
    operations were rearranged."""
    Nk = [sorted(o.uid for o in m if o.uid not in inserted) for m in N]
    Lk = [sorted(o.uid for o in m) for m in L]
    out: List[List[int]] = []

    def rec(i: int, j: int, acc: List[int]) -> None:
        if len(out) >= cap:
            return
        if i == len(Lk):
            if all(not Nk[x] for x in range(j, len(Nk))):
                out.append(list(acc))
            return
        want = Lk[i]
        x = j
        while x < len(Nk):
            if Nk[x] == want:
                acc.append(x)
                rec(i + 1, x + 1, acc)
                acc.pop()
                if want:
                    return
            if Nk[x]:
                return
            x += 1

    rec(0, 0, [])
    return out


def align_existing(L: Layout, N: Layout, inserted: FrozenSet[str]) -> Optional[List[int]]:
    al = all_alignments(L, N, inserted, cap=1)
    return al[0] if al else None


def split_alignment(L: Layout, N: Layout, inserted: FrozenSet[str], k: int) -> Optional[List[int]]:
    """The alignment that puts every new moment at the boundary k: moments of L before k are
    matched as early as possible, the others as late as possible.  (With many empty moments
    the number of alignments is large; this is the one an insert at k produces.)"""
    Nk = [sorted(o.uid for o in m if o.uid not in inserted) for m in N]
    Lk = [sorted(o.uid for o in m) for m in L]
    k = max(0, min(k, len(Lk)))
    left: List[int] = []
    j = 0
    for want in Lk[:k]:
        while j < len(Nk) and Nk[j] != want:
            if Nk[j]:
                return None
            j += 1
        if j >= len(Nk):
            return None
        left.append(j)
        j += 1
    right: List[int] = []
    r = len(Nk) - 1
    for want in reversed(Lk[k:]):
        while r >= j and Nk[r] != want:
            if Nk[r]:
                return None
            r -= 1
        if r < j:
            return None
        right.append(r)
        r -= 1
    if any(Nk[x] for x in range(j, r + 1)):
        return None
    return left + right[::-1]


def _first_clean(L: Layout, N: Layout, inserted: FrozenSet[str], check, k: Optional[int] = None) -> List["Problem"]:
    als = all_alignments(L, N, inserted)
    if k is not None:
        sp = split_alignment(L, N, inserted, k)
        if sp is not None and sp not in als:
            als.insert(0, sp)
    if not als:
        return [("C05-ORDER", f"existing operations were rearranged: {show(L)} -> {show(N)}")]
    first: Optional[List["Problem"]] = None
    for al in als:
        probs = check(al)
        if not probs:
            return []
        if first is None:
            first = probs
    return first or []


def conservation(before: Sequence[str], after: Sequence[str], added: Sequence[str] = (),
                 removed: Sequence[str] = ()) -> Optional[Problem]:
    """after == before + added - removed, as multisets of uids."""
    want: Dict[str, int] = {}
    for u in before:
        want[u] = want.get(u, 0) + 1
    for u in added:
        want[u] = want.get(u, 0) + 1
    for u in removed:
        want[u] = want.get(u, 0) - 1
    have: Dict[str, int] = {}
    for u in after:
        have[u] = have.get(u, 0) + 1
    lost = sorted(u for u in want if want[u] > have.get(u, 0))
    dup = sorted(u for u in have if have[u] > want.get(u, 0))
    if lost:
        return ("C05-LOST", f"operations {lost} are missing")
    if dup:
        return ("C05-DUP", f"operations {dup} appear more often than they should")
    return None


def check_insert_multi(L: Layout, N: Layout, index: int, items: Sequence, strategy: str,
                       returned: Optional[int], key_strict: bool = True, exempt: bool = True) -> List[Problem]:
    """Constraints the property states for an insert of several operations / moments.

    membership is checked by the caller (conservation).  Here: existing operations keep their
    arrangement; inserted Moments stay intact in a moment of their own; NEW gives every
    operation its own new moment at the insert location; LATEST/INLINE/NEW* never place before
    the insertion point; conflicting pairs are ordered (existing-before-point < inserted,
    inserted in argument order, inserted < existing-after-point except for the statement's
    exemption: several operations inserted mid-circuit with EARLIEST).
    """
    ins_ops = flatten_items(items)
    inserted = frozenset(o.uid for o in ins_ops)
    return _first_clean(L, N, inserted,
                        lambda al: _insert_multi_aligned(L, N, index, items, strategy, returned, key_strict, al, exempt),
                        k=clamp_index(len(L), index))


def _insert_multi_aligned(L: Layout, N: Layout, index: int, items: Sequence, strategy: str,
                          returned: Optional[int], key_strict: bool, al: List[int], exempt: bool = True) -> List[Problem]:
    out: List[Problem] = []
    n = len(L)
    k = clamp_index(n, index)
    ins_ops = flatten_items(items)
    pos = positions(N)
    aligned = set(al)

    def where(o: AOp) -> int:
        return pos[o.uid][0]

    # the boundary: new index of the last moment before the point / first moment after it
    before_idx = al[k - 1] if k > 0 else -1
    after_idx = al[k] if k < n else len(N)

    # the statement's exemption: several operations inserted mid-circuit with EARLIEST may share
    # the moment at the insertion point (and thereby push the later ones further); read in the
    # weakest way, the "before everything after the insertion point" clause is not asserted then
    several = len(items) > 1
    spill = strategy == EARLIEST and several and k < n
    exempt_after = spill and exempt
    n_moment_items = 0
    for it in items:
        if isinstance(it, MMoment):
            n_moment_items += 1
            if it:
                js = sorted({where(o) for o in it})
                if len(js) != 1:
                    out.append(("C05-PLACE", f"inserted Moment {list(it)} was split over moments {js}"))
                elif js[0] in aligned:
                    out.append(("C05-PLACE", f"inserted Moment {list(it)} was merged into existing moment {js[0]}"))
                elif not (before_idx < js[0] < after_idx) and strategy != LATEST and not exempt_after:
                    out.append(("C05-PLACE", f"inserted Moment {list(it)} is at {js[0]}, outside the "
                                             f"insertion point ({before_idx},{after_idx})"))
        elif strategy == NEW:
            j = where(it)
            if j in aligned or len(N[j]) != 1:
                out.append(("C05-PLACE", f"NEW: {it.describe()} is not alone in a new moment (moment {j}: {N[j]})"))
            elif not (before_idx < j < after_idx):
                out.append(("C05-PLACE", f"NEW: {it.describe()} in moment {j}, not at the insert location "
                                         f"({before_idx},{after_idx})"))
    if len(N) - n < n_moment_items:
        out.append(("C05-PLACE", f"{n_moment_items} Moments inserted but the circuit grew by {len(N) - n}"))

    for x in ins_ops:
        jx = where(x)
        if strategy in (LATEST, NEW_THEN_INLINE, NEW) and jx <= before_idx:
            out.append(("C05-PLACE", f"{strategy}: {x.describe()} placed in moment {jx}, before the insertion "
                                     f"point (after moment {before_idx})"))
        if strategy == INLINE and jx < before_idx:
            out.append(("C05-PLACE", f"INLINE: {x.describe()} placed in moment {jx}, before the moment just "
                                     f"before the insert location ({before_idx})"))
        for i, m in enumerate(L):
            for y in m:
                q = qconf(x, y)
                if not (q or kconf(x, y)):
                    continue
                jy = al[i]
                strict = q or key_strict
                if i < k:
                    bad = jy > jx or (strict and jy == jx)
                    if bad:
                        out.append(("C05-ORDER", f"inserted {x.describe()} (moment {jx}) is not after conflicting "
                                                 f"{y.describe()} (moment {jy}) that was before the insertion point"))
                elif not exempt_after:
                    # (strict reading of the exemption: the operations may *share* the moment at the
                    # insertion point, nothing more)
                    bad = jx > jy or (strict and jx == jy and not (spill and i == k and not q))
                    if bad:
                        out.append(("C05-ORDER", f"inserted {x.describe()} (moment {jx}) is not before conflicting "
                                                 f"{y.describe()} (moment {jy}) that was after the insertion point"))
    # inserted among themselves, argument order
    seq: List[Tuple[AOp, int]] = []
    for gi, it in enumerate(items):
        if isinstance(it, MMoment):
            seq.extend((o, gi) for o in it)
        else:
            seq.append((it, gi))
    for a in range(len(seq)):
        for b in range(a + 1, len(seq)):
            (x, gx), (y, gy) = seq[a], seq[b]
            if gx == gy:
                continue  # inside one inserted Moment
            q = qconf(x, y)
            if not (q or kconf(x, y)):
                continue
            jx, jy = where(x), where(y)
            if jx > jy or ((q or key_strict) and jx == jy):
                out.append(("C05-ORDER", f"inserted {x.describe()} (moment {jx}) and {y.describe()} (moment {jy}) "
                                         f"conflict but are not in argument order"))
    if returned is not None:
        if not ins_ops and not n_moment_items:
            if returned != k:
                out.append(("C05-RETURN", f"nothing inserted at {k} but {returned} returned"))
        else:
            hi = max([where(o) for o in ins_ops], default=-1)
            if not (hi < returned <= len(N)):
                out.append(("C05-RETURN", f"returned index {returned} is not just after the inserted "
                                          f"operations (last one in moment {hi}, length {len(N)})"))
    return out


def check_insert_into_range(L: Layout, N: Layout, ops: Sequence[AOp], start: int, end: int,
                            returned: Optional[int]) -> List[Problem]:
    inserted = frozenset(o.uid for o in ops)
    return _first_clean(L, N, inserted, lambda al: _into_range_aligned(L, N, ops, start, end, returned, al), k=end)


def _into_range_aligned(L: Layout, N: Layout, ops: Sequence[AOp], start: int, end: int,
                        returned: Optional[int], al: List[int]) -> List[Problem]:
    out: List[Problem] = []
    pos = positions(N)
    for i in range(end):
        if al[i] != i:
            out.append(("C05-PLACE", f"insert_into_range created a moment inside/before the range "
                                     f"(old moment {i} is now {al[i]})"))
            break
    several = len(ops) > 1
    for x in ops:
        jx = pos[x.uid][0]
        # no positional claim: operations that do not fit into the range are handed to
        # insert(end, ...), whose EARLIEST rule may move them anywhere they do not conflict
        for i, m in enumerate(L):
            if start <= i < end:
                continue
            for y in m:
                if not qconf(x, y):
                    continue
                jy = al[i]
                if i < start and jy >= jx:
                    out.append(("C05-ORDER", f"{x.describe()} (moment {jx}) not after {y.describe()} ({jy})"))
                if i >= end and jx >= jy and not several:
                    out.append(("C05-ORDER", f"{x.describe()} (moment {jx}) not before {y.describe()} ({jy})"))
    for a in range(len(ops)):
        for b in range(a + 1, len(ops)):
            x, y = ops[a], ops[b]
            q = qconf(x, y)
            if not (q or kconf(x, y)):
                continue
            jx, jy = pos[x.uid][0], pos[y.uid][0]
            if jx > jy or (q and jx == jy):
                out.append(("C05-ORDER", f"{x.describe()} ({jx}) and {y.describe()} ({jy}) not in argument order"))
    if returned is not None and ops:
        hi = max(pos[o.uid][0] for o in ops)
        if not (hi < returned <= len(N)):
            out.append(("C05-RETURN", f"returned {returned}, last inserted operation in moment {hi}, length {len(N)}"))
    return out


def check_insert_at_frontier(L: Layout, N: Layout, ops: Sequence[AOp], start: int) -> List[Problem]:
    inserted = frozenset(o.uid for o in ops)
    return _first_clean(L, N, inserted, lambda al: _at_frontier_aligned(L, N, ops, start, al), k=start)


def _at_frontier_aligned(L: Layout, N: Layout, ops: Sequence[AOp], start: int, al: List[int]) -> List[Problem]:
    out: List[Problem] = []
    pos = positions(N)
    for x in ops:
        jx = pos[x.uid][0]
        if jx < start:
            out.append(("C05-PLACE", f"{x.describe()} placed in moment {jx}, before start {start}"))
        for i, m in enumerate(L):
            for y in m:
                if not qconf(x, y):
                    continue
                jy = al[i]
                if i < start and jy >= jx:
                    out.append(("C05-ORDER", f"{x.describe()} ({jx}) not after {y.describe()} ({jy})"))
                if i >= start and jx >= jy:
                    out.append(("C05-ORDER", f"{x.describe()} ({jx}) not before {y.describe()} ({jy}) "
                                             f"which was at/after start"))
    for a in range(len(ops)):
        for b in range(a + 1, len(ops)):
            x, y = ops[a], ops[b]
            if qconf(x, y) and pos[x.uid][0] >= pos[y.uid][0]:
                out.append(("C05-ORDER", f"{x.describe()} and {y.describe()} not in argument order"))
    return out


def check_packed(N: Layout, items: Sequence, strategy: str = EARLIEST) -> List[Problem]:
    """A circuit built from an operation tree (constructor / the prefix of __radd__)."""
    return check_insert_multi([], N, 0, items, strategy, None)


def check_concat_ragged(A: Layout, B: Layout, N: Layout, key_order: bool = False) -> List[Problem]:
    """concat_ragged(A, B): each circuit keeps its own moment structure at some offset, and
    every operation of B stays after every operation of A it shares a qubit with."""
    ka, kb = layout_key(A), layout_key(B)
    kn = layout_key(N)
    cands: List[Tuple[int, int]] = []
    for oa, ob in [(0, x) for x in range(len(A) + 1)] + [(x, 0) for x in range(1, len(B) + 1)]:
        n = max(oa + len(A), ob + len(B))
        if n != len(N):
            continue
        ok = True
        for t in range(n):
            m: List[str] = []
            if 0 <= t - oa < len(A):
                m += ka[t - oa]
            if 0 <= t - ob < len(B):
                m += kb[t - ob]
            if sorted(m) != kn[t]:
                ok = False
                break
        if ok:
            cands.append((oa, ob))
    if not cands:
        return [("C05-PLACE", f"concat_ragged result {show(N)} is not {show(A)} and {show(B)} laid over "
                              f"each other at any offset")]
    for oa, ob in cands:
        bad = None
        for i, ma in enumerate(A):
            for x in ma:
                for j, mb in enumerate(B):
                    for y in mb:
                        if qconf(x, y) and not (oa + i < ob + j):
                            bad = (x, y)
        if bad is None:
            if key_order:
                # concatenation: an operation of B must not end up before an operation of A it
                # conflicts with on a measurement key
                for i, ma in enumerate(A):
                    for x in ma:
                        for j, mb in enumerate(B):
                            for y in mb:
                                if kconf(x, y) and ob + j < oa + i:
                                    return [("C05-ORDER:key", f"concat_ragged moved {y.describe()} of the second "
                                                              f"circuit (moment {ob + j}) before {x.describe()} of the "
                                                              f"first (moment {oa + i}) although they conflict on a "
                                                              f"measurement key")]
            return []
    return [("C05-ORDER", f"concat_ragged moved {bad[1].describe()} of the second circuit to/before "
                          f"{bad[0].describe()} of the first")]


def check_batch_insert_loose(L: Layout, N: Layout, insertions: Sequence[Tuple[int, Sequence]]) -> List[Problem]:
    """batch_insert with several operations per entry or repeated indices: only frame,
    intact Moments and argument order inside one entry, and 'after what was before'."""
    all_ops = [o for _, items in insertions for o in flatten_items(items)]
    inserted = frozenset(o.uid for o in all_ops)
    return _first_clean(L, N, inserted, lambda al: _batch_loose_aligned(L, N, insertions, al))


def _batch_loose_aligned(L: Layout, N: Layout, insertions: Sequence[Tuple[int, Sequence]], al: List[int]) -> List[Problem]:
    out: List[Problem] = []
    pos = positions(N)
    n = len(L)
    n_at: Dict[int, int] = {}
    for i0, _ in insertions:
        n_at[clamp_index(n, i0)] = n_at.get(clamp_index(n, i0), 0) + 1
    for i0, items in insertions:
        k = clamp_index(n, i0)
        flat = flatten_items(items)
        # one operation, alone at its index: a single EARLIEST insert at that boundary, so the
        # "before everything after the insertion point" clause applies to it without exemption
        # (only if no entry of the call inserts several operations: those fall under the
        # statement's exemption and may create moments beyond their own insertion point, which
        # the documented shift then adds to every later index)
        alone = len(items) == 1 and len(flat) == 1 and n_at[k] == 1 and \
            all(len(its) == 1 and len(flatten_items(its)) <= 1 for _, its in insertions)
        for x in flat:
            jx = pos[x.uid][0]
            for i, m in enumerate(L):
                for y in m:
                    if not conf(x, y):
                        continue
                    if i < k and al[i] >= jx:
                        out.append(("C05-ORDER", f"{x.describe()} ({jx}) inserted at {k} is not after "
                                                 f"{y.describe()} ({al[i]})"))
                    if i >= k and alone and jx >= al[i]:
                        out.append(("C05-ORDER", f"{x.describe()} ({jx}) inserted alone at {k} is not before "
                                                 f"{y.describe()} ({al[i]}) which was after the insertion point"))
    return out
