"""Choice-sequence minimisation on a tape.

`fails(values) -> Optional[list]` re-runs the scenario from `values` and
returns the *consumed* tape (what the run actually drew, which may be shorter)
when it ends in the same violation class, else None.  Passes: cut the tail,
delete chunks (halving sizes), zero entries, lower entries (binary search).
Budgeted by number of replays and wall-clock; whatever is reached when the
budget ends is still a valid, replayable failing tape.
"""
from __future__ import annotations

import time
from typing import Callable, List, Optional


def shrink(values: List[int], fails: Callable[[List[int]], Optional[List[int]]],
           max_replays: int = 400, max_seconds: float = 60.0) -> List[int]:
    t0 = time.monotonic()
    replays = 0
    best = list(values)

    def attempt(cand: List[int]) -> bool:
        nonlocal replays, best
        if replays >= max_replays or time.monotonic() - t0 > max_seconds:
            return False
        if cand == best:
            return False
        replays += 1
        used = fails(cand)
        if used is None:
            return False
        # keep the consumed prefix only; strip trailing zeros (exhausted == 0)
        used = list(used)
        while used and used[-1] == 0:
            used.pop()
        best = used
        return True

    def budget_left() -> bool:
        return replays < max_replays and time.monotonic() - t0 <= max_seconds

    # normalise: the consumed tape of the original
    attempt(list(best) + [0])
    improved = True
    while improved and budget_left():
        improved = False
        # 1. delete chunks
        size = max(1, len(best) // 2)
        while size >= 1 and budget_left():
            i = 0
            while i < len(best) and budget_left():
                cand = best[:i] + best[i + size:]
                if attempt(cand):
                    improved = True
                else:
                    i += size
            size //= 2
        # 2. zero entries (blocks first)
        size = max(1, len(best) // 4)
        while size >= 1 and budget_left():
            i = 0
            while i < len(best) and budget_left():
                if any(best[i:i + size]):
                    cand = best[:i] + [0] * len(best[i:i + size]) + best[i + size:]
                    if attempt(cand):
                        improved = True
                i += size
            size //= 2
        # 3. lower individual entries
        for i in range(len(best)):
            if not budget_left():
                break
            if i >= len(best) or best[i] == 0:
                continue
            lo, hi = 0, best[i]
            while lo < hi and budget_left():
                mid = (lo + hi) // 2
                if i >= len(best):
                    break
                cand = best[:i] + [mid] + best[i + 1:]
                if attempt(cand):
                    improved = True
                    if i < len(best):
                        hi = min(mid, best[i])
                    else:
                        break
                else:
                    lo = mid + 1
    return best
