"""Write /verif/evidence/<id>.json (level: exploration) from what the run measured."""
from __future__ import annotations

import json
import os
from typing import Any, Dict

from simkit import repoenv
from simkit.tape import derive_seed


def _jsonable(x):
    try:
        json.dumps(x)
        return x
    except TypeError:
        return repr(x)


def write_evidence(check, tier: str, base_seed: int, agg: Dict[str, Any], wall_s: float,
                   n_runs: int, jobs: int, stopped_by_wall: bool, n_violations: int,
                   harness_errors: int = 0) -> str:
    ev = agg["evaluations"]
    fault_kinds = sorted(set(agg["faults_configured"]) | set(agg["faults_fired"]))
    coverage = {
        "evaluations": ev,
        "distinct_nontrivial": len(agg["digests"]),
        "nontrivial_runs": agg["nontrivial"],
        "rule": check.rule,
        "samples": [_jsonable(s) for s in agg["samples"][:3]] or ["<no non-trivial run>"],
        "runs_per_hour": round(ev / wall_s * 3600) if wall_s > 0 else 0,
        "seeds": {
            "VERIF_SEED": base_seed,
            "derivation": "seed_i = int(sha256(f'{VERIF_SEED}:{property}:{i}')[:8]), i = run index; "
                          "tape_i = random.Random(seed_i)",
            "planned_runs": n_runs,
            "executed_runs": ev,
            "stopped_by_wall_budget": stopped_by_wall,
            "first_seed": derive_seed(base_seed, check.property_id, 0),
            "last_planned_seed": derive_seed(base_seed, check.property_id, max(0, n_runs - 1)),
        },
        "workloads": dict(sorted(agg["workloads"].items())),
        "simulated_time_s": round(agg["sim_time"], 3),
        "steps": agg["steps"],
        "fault_counts": {k: {"configured_in_runs": agg["faults_configured"].get(k, 0),
                             "fired": agg["faults_fired"].get(k, 0)} for k in fault_kinds},
        "probes": {k: agg["probes"][k] for k in sorted(agg["probes"])},
        "probes_expected_but_zero": [p for p in check.expected_probes if not agg["probes"].get(p)],
        "abstract_states": len(agg["states"]),
        "abstract_state_measure": check.state_measure,
        "real_vs_stub": check.real_vs_stub,
        "known_findings_hit": dict(agg["known"]),
        "workers": jobs,
        "harness_errors": harness_errors,
        "repo": repoenv.repo_root(),
        "repo_rev": repoenv.repo_rev(),
        "exhaustive": False,
    }
    doc = {
        "property_id": check.property_id,
        "tier": tier,
        "seed": base_seed,
        "level": "exploration",
        "coverage": coverage,
        "assumptions": list(check.assumptions),
        "wall_s": round(wall_s, 2),
        "violations": n_violations,
    }
    d = os.path.join(repoenv.VERIF_DIR, "evidence")
    os.makedirs(d, exist_ok=True)
    path = os.path.join(d, f"{check.property_id}.json")
    tmp = path + ".tmp"
    with open(tmp, "w") as f:
        json.dump(doc, f, indent=1, default=repr)
    os.replace(tmp, path)
    return path
