"""The choice tape: one integer decides everything.

Every decision of every engine (which task runs next, which job completes,
whether a fault lands, which outcome a random draw returns, what the workload
generator emits) is `tape.draw(n, label)`, an int in [0, n).

generate mode  Tape(seed=s)      values come from random.Random(s) (MT19937
                                 seeded from an int: identical on every Python
                                 build, independent of PYTHONHASHSEED)
replay mode    Tape(values=[..]) recorded values in order, clamped to n-1,
                                 0 when exhausted -- so *any* list of ints is a
                                 valid run, which is what lets the shrinker
                                 delete and lower entries freely.

Generators are written so that smaller values mean simpler things (0 = no
fault, first job, shortest circuit, identity), hence a shrunk tape reads as a
small scenario.  Labels are for humans and for counters only.
"""
from __future__ import annotations

import hashlib
import random
from typing import List, Optional, Sequence


def derive_seed(base: int, prop: str, index: int) -> int:
    h = hashlib.sha256(f"{base}:{prop}:{index}".encode()).digest()
    return int.from_bytes(h[:8], "big")


class Tape:
    __slots__ = ("seed", "_rng", "_values", "_pos", "record", "labels", "keep_labels")

    def __init__(self, seed: Optional[int] = None, values: Optional[Sequence[int]] = None,
                 keep_labels: bool = False):
        self.seed = seed
        self._rng = random.Random(seed) if values is None else None
        self._values = list(values) if values is not None else None
        self._pos = 0
        self.record: List[int] = []
        self.labels: List[str] = []
        self.keep_labels = keep_labels

    @property
    def replaying(self) -> bool:
        return self._values is not None

    def draw(self, n: int, label: str = "") -> int:
        if n <= 1:
            v = 0
            if n < 1:
                raise ValueError(f"draw({n}, {label!r})")
            # a forced choice is not recorded: it carries no information and
            # recording it would only make tapes longer
            return v
        if self._values is None:
            v = self._rng.randrange(n)
        else:
            if self._pos < len(self._values):
                v = self._values[self._pos]
                if v >= n:
                    v = n - 1
                elif v < 0:
                    v = 0
            else:
                v = 0
            self._pos += 1
        self.record.append(v)
        if self.keep_labels:
            self.labels.append(f"{label}:{v}/{n}")
        return v

    # convenience forms -- all defined through draw()
    def chance(self, num: int, den: int, label: str = "") -> bool:
        """True with probability num/den; value 0 (the shrink target) is False."""
        if num <= 0:
            return False
        return self.draw(den, label) >= den - num

    def pick(self, seq, label: str = ""):
        return seq[self.draw(len(seq), label)]

    def weighted(self, weights: Sequence[int], label: str = "") -> int:
        """Index i with probability weights[i]/sum; index 0 is the shrink target."""
        total = sum(weights)
        v = self.draw(total, label)
        acc = 0
        for i, w in enumerate(weights):
            acc += w
            if v < acc:
                return i
        return len(weights) - 1

    def between(self, lo: int, hi: int, label: str = "") -> int:
        """Integer in [lo, hi]."""
        return lo + self.draw(hi - lo + 1, label)

    def unit(self, label: str = "", resolution: int = 1 << 30) -> float:
        """A float in [0,1) on a fixed grid."""
        return self.draw(resolution, label) / resolution

    def shuffle(self, items: list, label: str = "") -> list:
        out = list(items)
        for i in range(len(out) - 1, 0, -1):
            j = i - self.draw(i + 1, label)  # 0 keeps the element in place
            out[i], out[j] = out[j], out[i]
        return out
