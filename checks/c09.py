"""C09 -- noisy and mixed-state simulation implements the channel semantics."""
from __future__ import annotations

import math

import numpy as np

from simkit.core import Check, Ctx, HarnessError, Violation

P = "C09"


class C09(Check):
    property_id = "C09"
    engine = "E4 scripted PRNG + branch-tree exploration + QRef reference interpreter"
    technique = ("deterministic simulation of the trajectory simulators' randomness: a scripted PRNG (incl. a symbolic "
                 "uniform draw for Kraus sampling) decides every branch, the whole trajectory tree is enumerated and "
                 "its probability-weighted states are summed and compared with reference channel evolution")
    rule = ("one run = one tape-drawn (noisy circuit, simulator configuration, entry point, optional noise model); all "
            "trajectory branches of the simulator are enumerated; non-trivial = the circuit contains a non-unitary "
            "channel and, for the state-vector simulator, the tree has >= 2 leaves; distinct = digest of (circuit "
            "repr, noise model, configuration, entry point, leaf count)")
    state_measure = "set of (operation-kind signature, simulator kind, entry point, noise-model kind, features) tuples"
    assumptions = [
        "cirq.kraus(op) of an individual library channel is the trusted definition of that channel (C03's content); "
        "the conversion sentence of C09 is checked only for channels that occur in runs (cross-invariant C09-CONVERT)",
        "branches offered with probability < 1e-7 are not explored; comparisons use 5e-5 (complex64) / 1e-6 "
        "(complex128) scaled by sqrt(#leaves)",
        "circuits are sampled (<= 4 qudits, <= 10 operations, <= 400 leaves), not enumerated",
    ]
    real_vs_stub = {
        "real": "cirq.DensityMatrixSimulator, cirq.Simulator (trajectories), apply_channel / apply_mixture / kraus / "
                "mixture protocols, every library channel, noise models, Circuit.with_noise, qis.channels conversions",
        "stub": "the pseudo-random generator passed as seed= (ScriptedPRNG / ScriptedUniform); QRef is the oracle",
    }
    tiers = {"quick": {"runs": 7000, "wall": 85}, "thorough": {"runs": 500000, "wall": 1200}}
    per_run_timeout = 240
    expected_probes = ["sim:sv", "sim:dm", "entry:simulate", "entry:run", "entry:steps", "feat:channel",
                       "feat:keyed-channel", "noise:constant", "noise:insertion", "noise:gate-like",
                       "noise:with_noise-circuit", "noise:thermal", "noise:unitary-gate", "noise:device", "entry:sweep", "entry:mux-fdm", "feat:composite-noisy-gate", "feat:pauli-measure", "protocol:apply_mixture-checked", "protocol:factor-checked", "protocol:moment-kraus-checked", "protocol:custom-apply-channel-checked", "protocol:apply_channel-checked", "order:spectator", "init:density-matrix", "init:vector", "draw:uniform-kraus", "draw:choice", "convert-checked",
                       "feat:reset", "boundary:fallback-branch"]

    def setup(self) -> None:
        from simkit import repoenv
        import cirq
        repoenv.assert_working_tree(cirq)
        from engines import qgen, qdrive, qref, scripted_prng  # noqa: F401
        qdrive.install_deterministic_state_hash()
        self.cirq = cirq
        self.qgen, self.qdrive, self.sp = qgen, qdrive, scripted_prng

    # -- cross-invariant: the descriptions of every channel that flows through a run agree -----------------
    def _convert_check(self, cirq, op, ctx) -> None:
        if getattr(op.gate, "_verif_composite_", False):
            return      # defined by its decomposition only; cirq.kraus() does not compose those
        if not cirq.has_kraus(op) or cirq.is_measurement(op) and not cirq.has_kraus(op):
            return
        if isinstance(op.gate, (cirq.MeasurementGate, cirq.PauliMeasurementGate)):
            return
        ks = cirq.kraus(op)
        d = ks[0].shape[0]
        # trace preserving
        s = sum(k.conj().T @ k for k in ks)
        if not np.allclose(s, np.eye(d), atol=1e-6):
            raise Violation(f"{P}-CONVERT", f"Kraus operators of {op!r} do not satisfy sum K^dag K = I")
        rho = np.diag(np.arange(1, d + 1, dtype=float)).astype(complex)
        rho[0, -1] = 0.5 - 0.25j
        rho[-1, 0] = 0.5 + 0.25j
        rho = rho / np.trace(rho)
        want = sum(k @ rho @ k.conj().T for k in ks)
        sup = cirq.kraus_to_superoperator(ks)
        got = (sup @ rho.reshape(-1)).reshape(d, d)
        if not np.allclose(got, want, atol=1e-6):
            raise Violation(f"{P}-CONVERT", f"kraus_to_superoperator disagrees with the Kraus sum for {op!r}")
        sup2 = cirq.operation_to_superoperator(op)
        if not np.allclose(sup2, sup, atol=1e-6):
            raise Violation(f"{P}-CONVERT", f"operation_to_superoperator disagrees with kraus_to_superoperator for {op!r}")
        choi = cirq.kraus_to_choi(ks)
        ks2 = cirq.choi_to_kraus(choi)
        got2 = sum(k @ rho @ k.conj().T for k in ks2)
        if not np.allclose(got2, want, atol=1e-6):
            raise Violation(f"{P}-CONVERT", f"choi_to_kraus(kraus_to_choi(K)) is a different channel for {op!r}")
        sup3 = cirq.choi_to_superoperator(choi)
        if not np.allclose(sup3, sup, atol=1e-6):
            raise Violation(f"{P}-CONVERT", f"choi_to_superoperator disagrees for {op!r}")
        if cirq.has_mixture(op):
            mix = cirq.mixture(op)
            got3 = sum(p * (u @ rho @ u.conj().T) for p, u in mix)
            if not np.allclose(got3, want, atol=1e-6):
                raise Violation(f"{P}-CONVERT", f"mixture and Kraus descriptions of {op!r} disagree")
            if abs(sum(p for p, _ in mix) - 1) > 1e-8:
                raise Violation(f"{P}-CONVERT", f"mixture weights of {op!r} do not sum to 1")
        ctx.probe("convert-checked")
        # the apply_* protocols on a density tensor give the same channel
        n_q = int(round(math.log2(d))) if d in (2, 4) else None
        if n_q is not None and getattr(op.gate, "_verif_composite_", False) is False:
            t = rho.reshape((2,) * (2 * n_q)).copy()
            args = cirq.ApplyChannelArgs(target_tensor=t, out_buffer=np.zeros_like(t), auxiliary_buffer0=np.zeros_like(t),
                                         auxiliary_buffer1=np.zeros_like(t), left_axes=list(range(n_q)),
                                         right_axes=list(range(n_q, 2 * n_q)))
            out = cirq.apply_channel(op, args, default=None)
            if out is not None:
                if not np.allclose(np.asarray(out).reshape(d, d), want, atol=1e-6):
                    raise Violation(f"{P}-CONVERT", f"cirq.apply_channel disagrees with the Kraus sum for {op!r}")
                ctx.probe("protocol:apply_channel-checked")
            if cirq.has_mixture(op):
                t2 = rho.reshape((2,) * (2 * n_q)).copy()
                margs = cirq.ApplyMixtureArgs(target_tensor=t2, out_buffer=np.zeros_like(t2),
                                              auxiliary_buffer0=np.zeros_like(t2), auxiliary_buffer1=np.zeros_like(t2),
                                              left_axes=list(range(n_q)), right_axes=list(range(n_q, 2 * n_q)))
                out2 = cirq.apply_mixture(op, margs, default=None)
                if out2 is not None:
                    if not np.allclose(np.asarray(out2).reshape(d, d), want, atol=1e-6):
                        raise Violation(f"{P}-CONVERT", f"cirq.apply_mixture disagrees with the Kraus sum for {op!r}")
                    ctx.probe("protocol:apply_mixture-checked")

    def _custom_mixture_check(self, cirq, tape, ctx) -> None:
        """A user-defined value whose _mixture_ lists *gates* (legal per the mixture protocol), in a
        tape-chosen order: cirq.mixture / cirq.kraus / cirq.apply_mixture describe the same channel."""
        pool = [cirq.I, cirq.Z, cirq.X, cirq.S, cirq.H, cirq.Y, cirq.T]
        k = 2 + tape.draw(2, "mix-terms")
        gates = [pool[tape.draw(len(pool), "mix-gate")] for _ in range(k)]
        raw = [1 + tape.draw(4, "mix-w") for _ in range(k)]
        probs = [w / sum(raw) for w in raw]

        class GateMixture(cirq.Gate):
            def _num_qubits_(self):
                return 1

            def _mixture_(self):
                return tuple(zip(probs, gates))

            def __repr__(self):
                return f"GateMixture({list(zip(probs, gates))})"

        val = GateMixture()
        rho = np.array([[0.7, 0.2 - 0.1j], [0.2 + 0.1j, 0.3]], dtype=np.complex128)
        want = sum(p * (cirq.unitary(g) @ rho @ cirq.unitary(g).conj().T) for p, g in zip(probs, gates))
        t = rho.reshape(2, 2).copy()
        margs = cirq.ApplyMixtureArgs(target_tensor=t, out_buffer=np.zeros_like(t), auxiliary_buffer0=np.zeros_like(t),
                                      auxiliary_buffer1=np.zeros_like(t), left_axes=[0], right_axes=[1])
        out = cirq.apply_mixture(val, margs)
        if not np.allclose(np.asarray(out).reshape(2, 2), want, atol=1e-7):
            raise Violation(f"{P}-CONVERT", f"cirq.apply_mixture of a mixture of gates {list(zip(probs, gates))} is not "
                                            f"sum p U rho U^dag (max error "
                                            f"{float(np.max(np.abs(np.asarray(out).reshape(2, 2) - want))):.3e})")
        ks = cirq.kraus(val)
        got = sum(kk @ rho @ kk.conj().T for kk in ks)
        if not np.allclose(got, want, atol=1e-7):
            raise Violation(f"{P}-CONVERT", f"cirq.kraus of a mixture of gates {list(zip(probs, gates))} is a different "
                                            f"channel")
        # and the state-vector form of apply_mixture (no right axes)
        psi = np.array([0.6, 0.8j], dtype=np.complex128)
        sargs = cirq.ApplyMixtureArgs(target_tensor=psi.copy(), out_buffer=np.zeros_like(psi),
                                      auxiliary_buffer0=np.zeros_like(psi), auxiliary_buffer1=np.zeros_like(psi),
                                      left_axes=[0])
        try:
            out_sv = cirq.apply_mixture(val, sargs, default=None)
        except Exception:  # noqa: BLE001 - a pure-state target may legitimately be unsupported
            out_sv = None
        _ = out_sv
        ctx.probe("protocol:custom-gate-mixture-checked")

    def _custom_apply_channel_check(self, cirq, tape, ctx) -> None:
        """A user-defined gate that only knows how to apply itself to a density tensor (_apply_channel_): a
        coherent over-rotation followed by damping.  cirq.kraus / superoperator / Choi derived from it and the
        density-matrix simulator must describe the one channel rho -> sum_i (K_i U) rho (K_i U)^dag."""
        theta = math.pi / 8 * [1, 3, 5, -2, 7][tape.draw(5, "theta")]
        phi = [0.0, 0.25, -0.5, 0.75][tape.draw(4, "phi")]
        gamma = [0.25, 0.5, 0.75][tape.draw(3, "gamma")]
        u = cirq.unitary(cirq.Z ** phi) @ cirq.unitary(cirq.rx(theta))
        ks = [kk @ u for kk in (np.array([[1, 0], [0, math.sqrt(1 - gamma)]], dtype=complex),
                                np.array([[0, math.sqrt(gamma)], [0, 0]], dtype=complex))]

        class OnlyApplyChannel(cirq.Gate):
            def _num_qubits_(self):
                return 1

            def _apply_channel_(self, args):
                (la,), (ra,) = args.left_axes, args.right_axes
                out = args.out_buffer
                out[...] = 0
                for kk in ks:
                    a = np.moveaxis(np.tensordot(kk, args.target_tensor, axes=(1, la)), 0, la)
                    a = np.moveaxis(np.tensordot(np.conj(kk), a, axes=(1, ra)), 0, ra)
                    out += a
                return out

            def __repr__(self):
                return f"OnlyApplyChannel(theta={theta:.4f}, phi={phi}, gamma={gamma})"

        g = OnlyApplyChannel()
        want_super = sum(np.kron(kk, np.conj(kk)) for kk in ks)
        got = cirq.kraus(g)
        got_super = sum(np.kron(kk, np.conj(kk)) for kk in got)
        if not np.allclose(got_super, want_super, atol=1e-7):
            raise Violation(f"{P}-CONVERT", f"cirq.kraus({g!r}), derived from its _apply_channel_, describes a different "
                                            f"channel: superoperator off by {float(np.max(np.abs(got_super - want_super))):.3e}")
        q = cirq.LineQubit(0)
        for name, fn, want in (("kraus_to_superoperator", lambda: cirq.kraus_to_superoperator(cirq.kraus(g)), want_super),
                               ("operation_to_superoperator", lambda: cirq.operation_to_superoperator(g.on(q)), want_super),
                               ("operation_to_choi", lambda: cirq.operation_to_choi(g.on(q)),
                                cirq.kraus_to_choi(ks))):
            val = fn()
            if not np.allclose(val, want, atol=1e-7):
                raise Violation(f"{P}-CONVERT", f"cirq.{name} of {g!r} is off by {float(np.max(np.abs(val - want))):.3e}")
        # the simulator applies the gate through _apply_channel_ itself
        q1 = cirq.LineQubit(1)
        pre = cirq.Circuit(cirq.ry(0.7)(q), cirq.rx(1.1)(q1), cirq.CZ(q, q1) ** 0.5)
        target = [q, q1][tape.draw(2, "on")]
        rho0 = cirq.final_density_matrix(pre, qubit_order=[q, q1], dtype=np.complex128)
        full = [np.kron(kk, np.eye(2)) if target == q else np.kron(np.eye(2), kk) for kk in ks]
        want_rho = sum(f @ rho0 @ f.conj().T for f in full)
        sim = cirq.DensityMatrixSimulator(dtype=np.complex128, split_untangled_states=bool(tape.draw(2, "split")))
        got_rho = sim.simulate(pre + cirq.Circuit(g.on(target)), qubit_order=[q, q1]).final_density_matrix
        if not np.allclose(got_rho, want_rho, atol=1e-6):
            raise Violation(f"{P}-STATE", f"DensityMatrixSimulator applying {g!r} on {target}: off by "
                                          f"{float(np.max(np.abs(got_rho - want_rho))):.3e}")
        ctx.probe("protocol:custom-apply-channel-checked")

    def _moment_kraus_check(self, cirq, tape, ctx) -> None:
        """cirq.kraus(moment) and Circuit._superoperator_() describe the moment's / circuit's channel: against the
        product of the operations' own Kraus operators, embedded on their qubits by the reference's Space (qubits
        of the operations in a tape-drawn order; a three-qubit gate, a two-qubit gate, one-qubit channels)."""
        from engines import qref
        n = 3 + tape.draw(2, "n")
        qs = cirq.LineQubit.range(n)
        order = tape.shuffle(list(range(n)), "qubit-order")
        ops = []
        if tape.chance(2, 3, "three-qubit-gate?"):
            g3 = [cirq.TOFFOLI, cirq.CCZ ** 0.5, cirq.FREDKIN, cirq.ControlledGate(cirq.ISWAP ** 0.5),
                  cirq.ControlledGate(cirq.CNOT, control_values=[0])][tape.draw(5, "gate3")]
            ops.append(g3.on(*[qs[i] for i in order[:3]]))
            rest = order[3:]
        else:
            g2 = [cirq.CNOT, cirq.ISWAP ** 0.5, cirq.CZ ** 0.25,
                  cirq.ControlledGate(cirq.Y ** 0.5, control_values=[0])][tape.draw(4, "gate2")]
            ops.append(g2.on(*[qs[i] for i in order[:2]]))
            rest = order[2:]
        for i in rest:
            ch = [cirq.amplitude_damp(0.3), cirq.phase_damp(0.25), cirq.bit_flip(0.125),
                  cirq.generalized_amplitude_damp(0.75, 0.5), cirq.T][tape.draw(5, "channel")]
            if tape.chance(3, 4, "spectator-op?"):
                ops.append(ch.on(qs[i]))
        ops = tape.shuffle(ops, "op-order")
        moment = cirq.Moment(ops)
        mq = sorted(moment.qubits)
        space = qref.Space(mq)

        def super_of(op):
            tg = [space.index[q] for q in op.qubits]
            return sum(np.kron(k, k.conj()) for k in (space.embed(k0, tg) for k0 in cirq.kraus(op)))

        want = np.eye(space.D ** 2, dtype=np.complex128)
        for op in ops:
            want = super_of(op) @ want
        got = sum(np.kron(k, np.conj(k)) for k in (np.asarray(k0, dtype=np.complex128) for k0 in cirq.kraus(moment)))
        if got.shape != want.shape or not np.allclose(got, want, atol=1e-7):
            raise Violation(f"{P}-CONVERT", f"cirq.kraus({moment!r}) is not the channel of its operations on "
                                            f"{[str(q) for q in mq]}: superoperator off by "
                                            f"{float(np.max(np.abs(got - want))) if got.shape == want.shape else 'shape'}")
        # a second moment with a channel on the first gate's first qubit; the circuit's superoperator composes
        tail = cirq.Moment([cirq.amplitude_damp(0.5).on(ops[0].qubits[0])] if tape.chance(1, 2, "tail?") else [])
        circuit = cirq.Circuit(moment, tail)
        cq = sorted(circuit.all_qubits())
        if cq == mq:
            want_c = want
            for op in tail.operations:
                want_c = super_of(op) @ want_c
            got_c = np.asarray(circuit._superoperator_(), dtype=np.complex128)
            if got_c.shape != want_c.shape or not np.allclose(got_c, want_c, atol=1e-7):
                raise Violation(f"{P}-CONVERT", f"Circuit._superoperator_() of {circuit!r} is not the composition of "
                                                f"its operations' channels")
        ctx.probe("protocol:moment-kraus-checked")

    def _factor_check(self, cirq, tape, ctx) -> None:
        """Product states factor: DensityMatrixSimulationState.factor / cirq.linalg factor_density_matrix (what the
        density-matrix simulator uses to take qubits out of a joint state again) with validation on, on a
        product of tape-drawn single-qubit mixed states, for a tape-drawn list of axes."""
        n = 2 + tape.draw(3, "n")
        rhos = []
        for _ in range(n):
            a = [0.0, 0.3, 0.9, 1.7, 2.4][tape.draw(5, "angle")]
            p = [1.0, 0.75, 0.5][tape.draw(3, "purity")]
            v = np.array([math.cos(a / 2), 1j * math.sin(a / 2)])
            rhos.append(p * np.outer(v, v.conj()) + (1 - p) * np.eye(2) / 2)
        full = rhos[0]
        for r in rhos[1:]:
            full = np.kron(full, r)
        k = 1 + tape.draw(n - 1, "n-axes")
        axes = tape.shuffle(list(range(n)), "axes")[:k]
        t = full.reshape((2,) * (2 * n)).astype(np.complex128)
        try:
            ext, rem = cirq.linalg.transformations.factor_density_matrix(t, axes, validate=True)
        except ValueError as e:
            raise Violation(f"{P}-FACTOR", f"factor_density_matrix(product of {n} one-qubit states, axes={axes}, "
                                           f"validate=True) raised {e}")
        want = rhos[axes[0]]
        for a in axes[1:]:
            want = np.kron(want, rhos[a])
        if not np.allclose(np.asarray(ext).reshape(2 ** k, 2 ** k), want, atol=1e-7):
            raise Violation(f"{P}-FACTOR", f"factor_density_matrix(axes={axes}) extracted a different state than the "
                                           f"product of the factors on those axes")
        ctx.probe("protocol:factor-checked")

    def run_one(self, tape, ctx: Ctx) -> None:
        cirq = self.cirq
        self.qdrive.reset_state_hash_counter()
        qgen, qdrive = self.qgen, self.qdrive
        ctx.workload = "channels"
        use_noise_model = tape.chance(1, 3, "noise-model?")
        g = qgen.Gen(tape, clifford_only=False, allow_channels=not use_noise_model, allow_qudits=not use_noise_model,
                     allow_control=True, allow_pauli_measure=True, max_qudits=3 if use_noise_model else 4,
                     leaf_bits_cap=4.0 if use_noise_model else 8.0, max_ops=6 if use_noise_model else 10)
        g.allow_qubitless = not use_noise_model
        circuit = g.circuit()
        noise = None
        noise_desc = None      # a description without memory addresses, for the event log
        noise_kind = "none"
        ref_circuit = None
        sim_circuit = circuit
        noise_bits = 0.0
        if use_noise_model:
            pr = [0.125, 0.25, 0.0625, 0.5][tape.draw(4, "noise-p")]
            nk = tape.weighted([3, 2, 2, 2, 2, 1, 2], "noise-kind")
            if nk == 0:
                ch = [cirq.depolarize(pr), cirq.bit_flip(pr), cirq.amplitude_damp(pr), cirq.phase_damp(pr)][tape.draw(4, "noise-ch")]
                noise = cirq.ConstantQubitNoiseModel(ch)
                noise_kind = "constant"
            elif nk == 1:
                noise = [cirq.bit_flip(pr), cirq.depolarize(pr), cirq.phase_flip(pr)][tape.draw(3, "noise-ch")]   # NOISE_MODEL_LIKE: a gate
                noise_kind = "gate-like"
            elif nk == 2:
                qs = sorted(circuit.all_qubits())
                added = {}
                for q in qs:
                    if tape.chance(2, 3, "ins?"):
                        gate_type = [cirq.YPowGate, cirq.HPowGate, cirq.XPowGate, cirq.ZPowGate, cirq.Ry][tape.draw(5, "ins-gate")]
                        added[cirq.OpIdentifier(gate_type, q)] = [cirq.bit_flip(pr), cirq.amplitude_damp(pr), cirq.phase_damp(pr)][tape.draw(3, "ins-ch")].on(q)
                noise = cirq.devices.InsertionNoiseModel(ops_added=added, prepend=bool(tape.draw(2, "prepend")),
                                                         require_physical_tag=False)
                noise_kind = "insertion"
            elif nk == 5:
                # coherent "noise": a unitary gate after every moment
                noise = [cirq.X ** 0.125, cirq.Z ** 0.25, cirq.rx(0.3)][tape.draw(3, "unitary-noise")]
                noise_kind = "unitary-gate"
            elif nk == 6:
                # device-derived: NoiseModelFromNoiseProperties over a SuperconductingQubitsNoiseProperties
                # (thermal T1/Tphi noise + depolarising gate errors + readout errors before measurements,
                # measurements split per qubit and recombined, PHYSICAL_GATE_TAG plumbing)
                noise = _device_noise_model(cirq, tape, sorted(circuit.all_qubits()) or [g.qudits[0]])
                noise_kind = "device"
                noise_desc = "NoiseModelFromNoiseProperties(" + repr(noise._noise_properties) + ")"
            elif nk == 3:
                ch = [cirq.bit_flip(pr), cirq.phase_damp(pr)][tape.draw(2, "noise-ch")]
                noise = cirq.ConstantQubitNoiseModel(ch, prepend=True)
                noise_kind = "constant"
            else:
                # thermal (T1 / Tphi / heating) noise derived from gate durations: Kraus channels on every
                # qubit of the system after (or before) each moment, incl. idle qubits
                qsys = set(circuit.all_qubits()) or {g.qudits[0]}
                rates = [None, 1e-3, 5e-3, 2e-2]
                noise = cirq.devices.ThermalNoiseModel(
                    qubits=qsys,
                    gate_durations_ns={cirq.ZPowGate: 0.0, cirq.XPowGate: 25.0, cirq.YPowGate: 25.0,
                                       cirq.HPowGate: 25.0, cirq.CZPowGate: 32.0, cirq.CXPowGate: 40.0,
                                       cirq.ISwapPowGate: 32.0, cirq.SwapPowGate: 50.0, cirq.MeasurementGate: 200.0,
                                       cirq.ResetChannel: 150.0, cirq.PhasedXZGate: 25.0, cirq.MatrixGate: 25.0,
                                       cirq.Ry: 25.0, cirq.Rx: 25.0},
                    heat_rate_GHz=rates[tape.draw(4, "heat")],
                    cool_rate_GHz=rates[1 + tape.draw(3, "cool")],
                    dephase_rate_GHz=rates[tape.draw(4, "dephase")],
                    require_physical_tag=False,
                    skip_measurements=bool(tape.draw(2, "skip-meas")),
                    prepend=bool(tape.draw(2, "prepend")),
                )
                noise_kind = "thermal"
            model = cirq.NoiseModel.from_noise_model_like(noise)
            qubits_sorted = sorted(circuit.all_qubits())
            if not qubits_sorted:
                circuit.append(cirq.I(g.qudits[0]))
                qubits_sorted = sorted(circuit.all_qubits())
            ref_circuit = cirq.Circuit(model.noisy_moments(circuit, qubits_sorted))
            ctx.probe("noise:" + noise_kind)
            # a noise model adds noise around the circuit's operations; each of the circuit's own operations is
            # still applied, once (tags aside), and per qubit in the original order
            rest = [op.untagged for op in ref_circuit.all_operations()]
            for q in qubits_sorted:
                mine = [op.untagged for op in circuit.all_operations() if q in op.qubits]
                theirs = [op for op in rest if q in op.qubits]
                it = iter(theirs)
                if not all(any(op == t for t in it) for op in mine):
                    raise Violation(f"{P}-NOISE-MODEL-ALTERED-CIRCUIT",
                                    f"the circuit produced by {noise_desc or repr(noise)} does not apply the circuit's own operations on "
                                    f"{q} in order: circuit {mine!r}, noisy circuit {theirs!r}")
            # how much branching would the trajectory simulator see?
            for op in ref_circuit.all_operations():
                op = op.untagged
                if isinstance(op, (cirq.ClassicallyControlledOperation, cirq.If)):
                    op = op.without_classical_controls()
                if getattr(op.gate, "_verif_composite_", False):
                    noise_bits += 2
                elif not cirq.has_unitary(op) and not cirq.is_measurement(op):
                    n_k = len(cirq.kraus(op))
                    noise_bits += math.log2(max(2, n_k))
        # simulator configuration
        total_bits = g.leaf_bits + noise_bits
        sv_ok = total_bits <= 8.5
        kind = "dm" if (not sv_ok or tape.chance(1, 2, "dm?")) else "sv"
        dtype = np.complex128 if tape.chance(1, 3, "dtype128?") else np.complex64
        split = not tape.chance(1, 3, "no-split?")
        with_noise_circuit = False
        if use_noise_model and tape.chance(1, 3, "with_noise-circuit?"):
            # simulate the circuit the noise model produces with a noiseless simulator
            sim_circuit = circuit.with_noise(noise)
            cfg = qdrive.SimConfig(kind, dtype=dtype, split=split)
            with_noise_circuit = True
            ctx.probe("noise:with_noise-circuit")
        else:
            cfg = qdrive.SimConfig(kind, dtype=dtype, split=split, noise=noise)
        for f in sorted(g.features):
            ctx.probe("feat:" + f)
        ctx.probe("sim:" + kind)
        # cross-invariant on every channel in the circuit that is simulated
        for op in (ref_circuit or circuit).all_operations():
            op = op.untagged
            if isinstance(op, (cirq.ClassicallyControlledOperation, cirq.If)):
                op = op.without_classical_controls()
            if not cirq.has_unitary(op):
                self._convert_check(cirq, op, ctx)
        if tape.chance(1, 4, "custom-mixture?"):
            self._custom_mixture_check(cirq, tape, ctx)
        if tape.chance(1, 5, "custom-apply-channel?"):
            self._custom_apply_channel_check(cirq, tape, ctx)
        if tape.chance(1, 8, "factor?"):
            self._factor_check(cirq, tape, ctx)
        if tape.chance(1, 6, "moment-kraus?"):
            self._moment_kraus_check(cirq, tape, ctx)
        if tape.chance(1, 8, "mixture-of-parameterized?"):
            import sympy
            gsym = [cirq.PhasedXPowGate(phase_exponent=sympy.Symbol("a")), cirq.X ** sympy.Symbol("a"),
                    cirq.CZ ** sympy.Symbol("a")][tape.draw(3, "sym-gate")]
            m = cirq.mixture(gsym, None)
            if m is not None and (cirq.has_mixture(gsym) is False or any(u is None for _p, u in m)):
                raise Violation(f"{P}-CONVERT", f"cirq.mixture({gsym!r}, None) = {m!r} although cirq.has_mixture says "
                                                f"{cirq.has_mixture(gsym)} and cirq.kraus(..., None) = {cirq.kraus(gsym, None)!r}")
        entry = ["simulate", "steps", "run", "sweep", "mux-fdm"][tape.weighted([5, 2, 3, 2, 1], "entry")]
        if entry == "mux-fdm" and (with_noise_circuit or g.key_dims or g.channel_keys or g.features & {"reset"}):
            entry = "simulate"      # the mux helper is exercised on measurement-free circuits
        has_meas = any(cirq.is_measurement(op) for op in (ref_circuit or circuit).all_operations())
        if entry == "run" and not has_meas:
            entry = "simulate"
        if entry == "sweep" and (with_noise_circuit or not sim_circuit.all_qubits()):
            entry = "simulate"
        ctx.probe("entry:" + entry)
        channel_keys = tuple(k for k in ("k", "l") if k in {str(x) for x in cirq.measurement_key_names(sim_circuit)})
        n_leaves = 0
        stats = {}
        # Known finding (DESIGN.md section 5): with a noise model, DensityMatrixSimulator.simulate/run split the
        # circuit into a prefix and a suffix *before* the noise model sees it (its _can_be_in_run_prefix accepts
        # every key-less noise model), which regroups moments and changes where and how often per-moment noise
        # is applied.  Runs in which that split is non-trivial carry their own fingerprint.
        split_affected = False
        sv_unitary_noise = (kind == "sv" and noise_kind == "unitary-gate")
        if (noise is not None and (kind == "dm" or sv_unitary_noise) and not with_noise_circuit
                and entry in ("simulate", "run")):
            from cirq.sim.simulator import split_into_matching_protocol_then_general
            pre, suf = split_into_matching_protocol_then_general(
                sim_circuit, (lambda op: not cirq.measurement_keys_touched(op)) if kind == "dm" else cirq.has_unitary)
            split_affected = len(pre) > 0 and (len(suf) > 0 or len(pre) != len(sim_circuit)
                                               or pre.all_qubits() != sim_circuit.all_qubits())
            if len(pre) == 0 and len(suf) != len(sim_circuit):
                split_affected = True
            if split_affected:
                ctx.probe("known:noise-prefix-split-reached")
        # Second known finding of the same family: _run decides "all measurements are terminal" on the
        # noiseless circuit and then samples every measurement from the final state, although the noise model
        # inserts channels after (between) the measurement moments.
        terminal_affected = False
        if noise is not None and not with_noise_circuit and entry == "run":
            from cirq.sim.simulator import split_into_matching_protocol_then_general
            if kind == "dm":
                _pre, suf2 = split_into_matching_protocol_then_general(
                    sim_circuit, lambda op: not cirq.measurement_keys_touched(op))
            else:
                suf2 = sim_circuit
            gen_ops = list(suf2.all_operations())
            terminal_affected = bool(gen_ops) and all(isinstance(op.gate, cirq.MeasurementGate) for op in gen_ops)
            if terminal_affected:
                ctx.probe("known:noise-terminal-fastpath-reached")
        try:
            if entry == "sweep":
                import sympy
                # parameterise the circuit: a symbolic rotation in front and one in the middle
                tsym = sympy.Symbol("t")
                qs_all = sorted(q for q in sim_circuit.all_qubits() if q.dimension == 2)
                if not qs_all:
                    entry = "simulate"
                else:
                    qp = qs_all[tape.draw(len(qs_all), "sweep-qubit")]
                    pos = tape.draw(len(sim_circuit) + 1, "sweep-pos")
                    swept = sim_circuit.copy()
                    # the part before the first parameterised operation is simulated once and *copied* for
                    # every sweep point: put the first symbol at a tape-chosen depth so that this shared
                    # prefix is sometimes empty and sometimes holds entangled, measured or noisy state
                    pos0 = tape.draw(pos + 1, "sweep-first-pos")
                    if len(qs_all) >= 2 and tape.chance(1, 2, "structural-ops?"):
                        # state that is built before the copy point and restructured after it: an entangled
                        # pair in the shared prefix, and a relabelling SWAP of that pair in the per-point part
                        others = [q for q in qs_all if q != qp]
                        qo = others[tape.draw(len(others), "pair-with")]
                        swept.insert(pos0, [cirq.H(qp), cirq.CNOT(qp, qo)], strategy=cirq.InsertStrategy.NEW)
                        pos0 += 2
                        pos += 2
                        after = pos0 + tape.draw(max(1, len(swept) - pos0 + 1), "swap-pos")
                        swept.insert(min(after, len(swept)), cirq.SWAP(qp, qo) if tape.chance(2, 3, "swap-order?")
                                     else cirq.SWAP(qo, qp), strategy=cirq.InsertStrategy.NEW)
                        ctx.probe("sweep:entangled-prefix-then-swap")
                    swept.insert(pos0, (cirq.X ** tsym).on(qp), strategy=cirq.InsertStrategy.NEW)
                    swept.insert(min(pos + 1, len(swept)), (cirq.Z ** (tsym * 0.5)).on(qp), strategy=cirq.InsertStrategy.NEW)
                    values = [[0.25, 1.0], [1.0, 0.0, 0.5], [0.5, 0.75]][tape.draw(3, "sweep-values")]
                    if noise is not None and (kind == "dm" or sv_unitary_noise):
                        # the known prefix/suffix split also happens in simulate_sweep (un-parameterised prefix)
                        from cirq.sim.simulator import split_into_matching_protocol_then_general
                        base_pred = (lambda op: not cirq.measurement_keys_touched(op)) if kind == "dm" else cirq.has_unitary
                        pre, suf = split_into_matching_protocol_then_general(
                            swept, lambda op: base_pred(op) and not cirq.is_parameterized(op))
                        split_affected = len(pre) > 0 and (len(suf) > 0 or len(pre) != len(swept))
                        if split_affected:
                            ctx.probe("known:noise-prefix-split-reached")
                    model = cirq.NoiseModel.from_noise_model_like(noise) if noise is not None else None
                    ref_for = (lambda c: cirq.Circuit(model.noisy_moments(c, sorted(c.all_qubits())))) if model else None
                    n_leaves = qdrive.check_sweep(P, swept, cirq.Points("t", values), cfg, ctx,
                                                  max_leaves=400 if kind == "sv" else 64, ref_circuit_for=ref_for,
                                                  stats=stats)
                    sim_circuit = swept
                    ctx.probe("entry:sweep-points", len(values))
            if entry == "mux-fdm":
                qdrive.check_mux_final_density_matrix(P, sim_circuit, noise, dtype, ctx, ref_circuit=ref_circuit)
                n_leaves = 1
            elif entry == "sweep":
                pass
            elif entry == "run":
                bits = max(total_bits, 0.5)
                reps = 1 + tape.draw(min(2, max(1, int(8.6 // bits))), "reps")
                n_leaves = qdrive.check_run(P, sim_circuit, cfg, reps, ctx, max_leaves=400, entry="run",
                                            channel_keys=channel_keys, ref_circuit=ref_circuit, stats=stats)
            else:
                order = sorted(sim_circuit.all_qubits())
                if len(order) > 1 and tape.chance(1, 4, "permute-order?"):
                    order = tape.shuffle(order, "order")
                if len(order) <= 3 and tape.chance(1, 4, "spectator?"):
                    # a qubit the circuit never touches, present only in qubit_order
                    order.insert(tape.draw(len(order) + 1, "spectator-pos"), cirq.LineQubit(7))
                    ctx.probe("order:spectator")
                D = int(np.prod([q.dimension for q in order])) if order else 1
                init = 0
                ref_init = None
                ik = tape.weighted([5, 2, 2, 2], "init")
                if ik == 1:
                    init = tape.draw(D, "init-index")
                    ctx.probe("init:int")
                elif ik == 2:
                    vals = [tape.draw(9, "amp") - 4 for _ in range(2 * D)]
                    v = np.array(vals[:D], dtype=float) + 1j * np.array(vals[D:], dtype=float)
                    if np.linalg.norm(v) == 0:
                        v[0] = 1
                    v = v / np.linalg.norm(v)
                    ref_init = v
                    init = v.astype(dtype if tape.chance(2, 3, "init-same-dtype?") else
                                    (np.complex128 if dtype == np.complex64 else np.complex64))
                    ctx.probe("init:vector")
                elif ik == 3 and kind == "dm":
                    # a mixed initial state given as a density matrix (e.g. the final state of an earlier run)
                    k = 1 + tape.draw(min(3, D), "init-rank")
                    rho0 = np.zeros((D, D), dtype=complex)
                    wts = [1 + tape.draw(4, "init-w") for _ in range(k)]
                    for j in range(k):
                        vals = [tape.draw(9, "amp") - 4 for _ in range(2 * D)]
                        v = np.array(vals[:D], dtype=float) + 1j * np.array(vals[D:], dtype=float)
                        if np.linalg.norm(v) == 0:
                            v[j % D] = 1
                        v = v / np.linalg.norm(v)
                        rho0 += wts[j] / sum(wts) * np.outer(v, v.conj())
                    ref_init = rho0
                    init = rho0.astype(dtype if tape.chance(2, 3, "init-same-dtype?") else
                                       (np.complex128 if dtype == np.complex64 else np.complex64))
                    ctx.probe("init:density-matrix")
                n_leaves = qdrive.check_simulate(P, sim_circuit, cfg, ctx, max_leaves=400, qubit_order=order,
                                                 initial_state=init, ref_initial=ref_init,
                                                 stepwise=(entry == "steps"), ref_circuit=ref_circuit, stats=stats,
                                                 boundary_call=(tape.draw(3, "boundary-call") if kind == "sv" and
                                                                tape.chance(1, 2, "boundary-u?") else None))
        except Violation as v:
            if split_affected and v.cls in (f"{P}-STATE", f"{P}-DIST", f"{P}-PHASE"):
                who = "DensityMatrixSimulator(noise=)" if kind == "dm" else "Simulator(unitary noise=)"
                raise Violation(v.cls, v.message, fingerprint=f"{P}-NOISE-PREFIX-SPLIT:{who}.simulate/run") from None
            if terminal_affected and v.cls == f"{P}-DIST":
                raise Violation(v.cls, v.message, fingerprint=f"{P}-NOISE-TERMINAL-FASTPATH:Simulator(noise=).run") from None
            raise
        if stats.get("uniform"):
            ctx.probe("draw:uniform-kraus", stats["uniform"])
        if stats.get("choice"):
            ctx.probe("draw:choice", stats["choice"])
        if stats.get("fallback"):
            ctx.probe("boundary:fallback-branch", stats["fallback"])
            ctx.fault("boundary-u")
        ctx.decide("case", repr(sim_circuit), noise_kind,
                   (noise_desc or repr(noise)) if noise is not None else "", with_noise_circuit,
                   cfg.describe(), entry, n_leaves)
        nonunitary = g.has_nonunitary_channel or use_noise_model
        ctx.nontrivial = bool(nonunitary and (kind == "dm" or n_leaves >= 2))
        ctx.steps += n_leaves
        ctx.probe("leaves", n_leaves)
        ctx.state((tuple(sorted(set(g.kinds))), kind, entry, noise_kind, tuple(sorted(g.features))[:4]))
        diagram = str(sim_circuit).splitlines()
        ctx.sample = {"circuit": diagram if len(diagram) <= 24 and max(map(len, diagram), default=0) < 200
                      else [repr(op)[:120] for op in sim_circuit.all_operations()][:20],
                      "noise": (noise_desc or repr(noise))[:200] if noise is not None else None, "via_with_noise": with_noise_circuit,
                      "simulator": cfg.describe(), "entry": entry, "leaves_explored": n_leaves,
                      "features": sorted(g.features)}


def _device_noise_model(cirq, tape, qubits):
    one_q = {cirq.XPowGate, cirq.YPowGate, cirq.ZPowGate, cirq.HPowGate, cirq.PhasedXZGate, cirq.MatrixGate,
             cirq.MeasurementGate, cirq.ResetChannel, cirq.IdentityGate}
    sym2 = {cirq.CZPowGate, cirq.ISwapPowGate, cirq.SwapPowGate}
    asym2 = {cirq.CXPowGate}

    class Props(cirq.devices.SuperconductingQubitsNoiseProperties):
        @classmethod
        def single_qubit_gates(cls):
            return one_q

        @classmethod
        def symmetric_two_qubit_gates(cls):
            return sym2

        @classmethod
        def asymmetric_two_qubit_gates(cls):
            return asym2

    times = {cirq.ZPowGate: 0.0, cirq.XPowGate: 25.0, cirq.YPowGate: 25.0, cirq.HPowGate: 25.0,
             cirq.PhasedXZGate: 25.0, cirq.MatrixGate: 25.0, cirq.IdentityGate: 25.0, cirq.CZPowGate: 32.0,
             cirq.CXPowGate: 40.0, cirq.ISwapPowGate: 32.0, cirq.SwapPowGate: 50.0, cirq.MeasurementGate: 200.0,
             cirq.ResetChannel: 150.0}
    have_t1 = tape.chance(3, 4, "t1?")
    t1 = {q: [2e3, 5e2, 1e4][tape.draw(3, "t1")] for q in qubits} if have_t1 else {}
    tphi = {q: [3e3, 4e2, 2e4][tape.draw(3, "tphi")] for q in qubits} if have_t1 else {}
    errs = {}
    for q in qubits:
        for gt in (cirq.XPowGate, cirq.HPowGate, cirq.ZPowGate):
            if tape.chance(1, 2, "gate-error?"):
                errs[cirq.OpIdentifier(gt, q)] = [0.05, 0.2, 1e-4][tape.draw(3, "p-error")]
    for i, a in enumerate(qubits):
        for b in qubits[i + 1:]:
            for gt in (cirq.CZPowGate, cirq.CXPowGate):
                if tape.chance(1, 3, "2q-error?"):
                    p = [0.1, 0.3][tape.draw(2, "p-error")]
                    errs[cirq.OpIdentifier(gt, a, b)] = p
                    if gt in sym2 or tape.chance(1, 2, "reverse-too?"):
                        errs[cirq.OpIdentifier(gt, b, a)] = p
    if not have_t1:
        # decoherence is subtracted from the Pauli error per qubit: needs T1/Tphi for every error entry
        t1 = {q: 1e9 for q in qubits}
        tphi = {q: 1e9 for q in qubits}
    readout = {q: [[0.0625, 0.125], [0.25, 0.03125]][tape.draw(2, "readout")] for q in qubits
               if tape.chance(1, 2, "readout-error?")}
    props = Props(gate_times_ns=times, t1_ns=t1, tphi_ns=tphi, readout_errors=readout, gate_pauli_errors=errs)
    return cirq.devices.NoiseModelFromNoiseProperties(props)


CHECK = C09()
