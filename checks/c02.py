"""C02 -- measurement outcomes follow the Born rule exactly, incl. feed-forward."""
from __future__ import annotations

import math

import numpy as np

from simkit.core import Check, Ctx, HarnessError, Violation

P = "C02"


def qgen_pick(tape, label):
    from engines.qgen import EIGHTHS
    return EIGHTHS[tape.draw(len(EIGHTHS), label)]


class C02(Check):
    property_id = "C02"
    engine = "E4 scripted PRNG + branch-tree exploration + QRef reference interpreter"
    technique = ("deterministic simulation of the simulators' only nondeterminism: a scripted PRNG decides every "
                 "random draw, the whole draw tree of each run is explored, exact path probabilities are compared "
                 "with a reference interpreter")
    rule = ("one run = one tape-drawn (circuit, simulator configuration, entry point, repetitions, initial state, "
            "qubit order); all root-to-leaf draw sequences of the simulator are enumerated (each leaf is one real "
            "simulator call); non-trivial = the tree has at least 2 leaves; distinct = digest of (circuit repr, "
            "configuration, entry point, leaf count)")
    state_measure = "set of (operation-kind multiset signature, simulator kind, entry point, features) tuples"
    assumptions = [
        "single-operation matrices (cirq.unitary / cirq.kraus of one gate) and measurement-gate attributes are "
        "trusted (that is C03's content); everything the simulators do with them is checked",
        "confusion maps are generated with disjoint index sets (the documentation does not define overlapping ones)",
        "outcomes offered with probability < 1e-7 are not explored; comparisons use 5e-5 (complex64) / 1e-6 "
        "(complex128) scaled by sqrt(#leaves)",
        "circuits are sampled (<= 5 qudits, <= 12 operations, <= 400 leaves), not enumerated",
    ]
    real_vs_stub = {
        "real": "cirq.Simulator, DensityMatrixSimulator, CliffordSimulator, StabilizerSampler, cirq.sample, all "
                "simulation states, protocols, gates, classical data store, condition resolution",
        "stub": "the pseudo-random generator passed as seed= (ScriptedPRNG); QRef is the oracle",
    }
    tiers = {"quick": {"runs": 8000, "wall": 85}, "thorough": {"runs": 600000, "wall": 1200}}
    per_run_timeout = 240
    expected_probes = ["path:terminal-fast", "path:per-repetition", "feat:confusion", "feat:invert+confusion",
                       "feat:repeated-key", "feat:qudit-measure", "feat:classical-control", "feat:sympy-condition",
                       "feat:bitmask-condition", "feat:indexed-condition", "feat:pauli-measure", "feat:reset", "feat:subcircuit", "feat:subcircuit-key-map", "feat:subcircuit-rep-ids", "feat:nested-subcircuit-confusion",
                       "sim:sv", "sim:dm", "sim:clifford", "sim:stab-sampler", "entry:run", "entry:simulate",
                       "entry:steps", "entry:sample", "entry:run_sweep", "entry:sweep-from-state", "entry:direct-functions", "entry:wide-key-control", "entry:mux-qudit-reset", "init:density-matrix", "entry:stabilizer-measure", "entry:wide-register", "mux:clifford-only-as-product", "entry:step-sampling", "step-sampling:integer-seed", "direct:sample_from_amplitudes", "direct:measure_density_matrix", "gen:deep-clifford", "init:vector", "init:int", "order:permuted", "order:spectator"]

    def setup(self) -> None:
        from simkit import repoenv
        import cirq
        repoenv.assert_working_tree(cirq)
        from engines import qgen, qdrive, qref, scripted_prng  # noqa: F401
        qdrive.install_deterministic_state_hash()
        self.cirq = cirq
        self.qgen, self.qdrive = qgen, qdrive

    def run_one(self, tape, ctx: Ctx) -> None:
        cirq = self.cirq
        self.qdrive.reset_state_hash_counter()
        qgen, qdrive = self.qgen, self.qdrive
        ctx.workload = "born-rule"
        if tape.chance(1, 12, "sweep-from-state?"):
            return self._sweep_from_state(tape, ctx)
        if tape.chance(1, 12, "direct-functions?"):
            return self._direct_functions(tape, ctx)
        if tape.chance(1, 12, "step-sampling?"):
            return self._step_sampling(tape, ctx)
        if tape.chance(1, 12, "stabilizer-measure?"):
            return self._stabilizer_measure(tape, ctx)
        if tape.chance(1, 30, "wide-register?"):
            return self._wide_register(tape, ctx)
        if tape.chance(1, 50, "mux-on-qudit-reset?"):
            return self._mux_qudit_reset(tape, ctx)
        clifford = tape.chance(1, 5, "clifford-circuit?")
        deep_clifford = clifford and tape.chance(1, 2, "deep-clifford?")
        # now and then with channels too: a keyed channel's record (which Kraus operator / mixture branch was taken)
        # is a recorded result like a measurement's
        with_channels = (not clifford) and tape.chance(1, 6, "channels?")
        g = qgen.Gen(tape, clifford_only=clifford, allow_channels=with_channels, allow_qudits=not clifford,
                     leaf_bits_cap=(5.0 if deep_clifford else 8.0), max_ops=(36 if deep_clifford else 11),
                     allow_subcircuits=not deep_clifford)
        g.product_clifford_gates = clifford and not deep_clifford
        circuit = g.circuit()
        if deep_clifford:
            # long entangling Clifford history, then every qubit measured separately: after the first
            # (random) outcomes the remaining ones are determined by products of several tableau rows
            ctx.probe("gen:deep-clifford")
            for i in tape.shuffle(list(range(len(g.qudits))), "final-order"):
                if g.leaf_bits + 1 > 8:
                    break
                g.leaf_bits += 1
                circuit.append(cirq.measure(g.qudits[i], key=f"z{i}"), strategy=cirq.InsertStrategy.NEW)
        tail = tape.weighted([4, 3, 2], "tail") if not deep_clifford else 0
        if tail == 1 or not any(cirq.is_measurement(op) for op in circuit.all_operations()):
            # a terminal measurement layer
            rest = [q for q in g.qudits]
            key = "z"
            budget = g.cap - g.leaf_bits
            qs = []
            for q in rest:
                if math.log2(q.dimension) <= budget:
                    qs.append(q)
                    budget -= math.log2(q.dimension)
            if qs:
                inv = (tuple(bool(tape.draw(2, "invert")) and q.dimension == 2 for q in qs)
                       if tape.chance(1, 3, "invert?") else ())
                circuit.append(cirq.measure(*qs, key=key, invert_mask=inv))
                g.leaf_bits += sum(math.log2(q.dimension) for q in qs)
                g.key_dims[key] = tuple(q.dimension for q in qs)
        elif tail == 2 and g.key_dims:
            # a trailing classically controlled no-op forces the per-repetition path
            key = sorted(g.key_dims)[0]
            circuit.append(cirq.I(g.qudits[0]).with_classical_controls(key) if g.qudits[0].dimension == 2
                           else cirq.IdentityGate(qid_shape=(g.qudits[0].dimension,)).on(g.qudits[0]).with_classical_controls(key))
        if not any(cirq.is_measurement(op) for op in circuit.all_operations()):
            ctx.probe("no-measurement")
        # repetitions so that the whole tree stays enumerable
        bits = max(g.leaf_bits, 0.5)
        max_reps = max(1, int(8.6 // bits))
        reps = 1 + tape.draw(min(3, max_reps), "reps")
        if "swap-inside-entangled-block" in g.features and max_reps >= 2:
            reps = max(reps, 2)      # what a repetition leaves behind in shared structures shows in the next one
        # simulator configuration
        product_clifford = "clifford-only-as-product" in g.features
        if clifford and product_clifford:
            # not runnable by the stabilizer simulators (rightly); what is under test is the general
            # simulators and, through cirq.sample, the choice of simulator
            kind = ["sv", "dm"][tape.weighted([3, 2], "sim-kind")]
        elif clifford:
            kind = ["clifford", "stab-sampler", "sv", "dm"][tape.weighted([3, 3, 1, 1], "sim-kind")]
        else:
            kind = ["sv", "dm"][tape.weighted([3, 2], "sim-kind")]
        dtype = np.complex128 if tape.chance(1, 3, "dtype128?") else np.complex64
        split = not tape.chance(1, 3, "no-split?")
        cfg = qdrive.SimConfig(kind, dtype=dtype, split=split)
        entries = ["run", "simulate", "steps", "run_sweep", "sample"]
        weights = [5, 3, 2, 1, 1]
        if kind == "stab-sampler":
            weights = [1, 0, 0, 1, 0]
        if kind == "clifford":
            weights = [4, 3, 2, 1, 0]
        entry = entries[tape.weighted(weights, "entry")]
        if entry in ("run", "run_sweep", "sample") and not any(
                cirq.is_measurement(op) for op in circuit.all_operations()):
            entry = "simulate"      # nothing to sample (the channels used up the enumeration budget): run() refuses
        if entry == "sample" and g.has_nonunitary_channel:
            # cirq.sample() documents its choice: anything that is not unitary goes to the density-matrix
            # simulator, which applies keyed channels whole and records nothing for them
            cfg = qdrive.SimConfig("dm", dtype=dtype, split=split)
        if product_clifford and tape.chance(2, 3, "mux-on-product-clifford?"):
            entry = "sample"
            ctx.probe("mux:clifford-only-as-product")
        if kind in ("sv", "dm") and not clifford:
            # cirq.sample() picks a simulator from the circuit's content; the interesting inputs are the
            # ones on which its "is this a Clifford circuit" test says yes for an unusual reason
            try:
                looks_clifford = all(cirq.has_stabilizer_effect(op) for op in circuit.all_operations())
            except Exception:  # noqa: BLE001
                looks_clifford = False
            if looks_clifford and tape.chance(1, 2, "mux-on-clifford-looking?"):
                entry = "sample"
                ctx.probe("mux:clifford-looking-non-clifford-generator")
        for f in sorted(g.features):
            ctx.probe("feat:" + f)
        ctx.probe("sim:" + kind)
        ctx.probe("entry:" + entry)
        general_ops_terminal = circuit.are_all_measurements_terminal() and circuit.has_measurements()
        n_leaves = 0
        if entry in ("run", "run_sweep", "sample"):
            ctx.probe("path:terminal-fast" if self._is_terminal_path(cirq, circuit) else "path:per-repetition")
            int_seed = None
            if kind != "stab-sampler" and tape.chance(1, 6, "integer-seed?"):
                int_seed = [0, 7, 2 ** 31][tape.draw(3, "seed-value")]
                ctx.probe("seed:integer")
            points = 1
            if entry == "run_sweep" and bits * reps * 2 <= 8.6 and tape.chance(1, 2, "unparameterized-sweep?"):
                points = 2      # sweep points over a symbol the circuit does not use are independent samples
                ctx.probe("entry:run_sweep-unused-symbol")
            channel_keys = tuple(k for k in ("k", "l") if k in {str(x) for x in cirq.measurement_key_names(circuit)})
            n_leaves = qdrive.check_run(P, circuit, cfg, reps, ctx, max_leaves=400, entry=entry, int_seed=int_seed,
                                        sweep_points=points, channel_keys=channel_keys)
        else:
            order = sorted(circuit.all_qubits())
            if len(order) > 1 and tape.chance(1, 3, "permute-order?"):
                order = tape.shuffle(order, "order")
                ctx.probe("order:permuted")
            if len(order) <= 3 and tape.chance(1, 5, "spectator?"):
                order.insert(tape.draw(len(order) + 1, "spectator-pos"), cirq.LineQubit(7))
                ctx.probe("order:spectator")
            D = int(np.prod([q.dimension for q in order])) if order else 1
            init_kind = tape.weighted([4, 2, 2], "init")
            if init_kind == 0 or kind == "clifford" and init_kind == 2:
                init = 0
                ref_init = 0
            elif init_kind == 1:
                init = tape.draw(D, "init-index")
                ref_init = init
                ctx.probe("init:int")
            else:
                vals = [tape.draw(9, "amp") - 4 for _ in range(2 * D)]
                v = np.array(vals[:D], dtype=float) + 1j * np.array(vals[D:], dtype=float)
                if np.linalg.norm(v) == 0:
                    v[0] = 1
                v = v / np.linalg.norm(v)
                init = v.astype(dtype)
                ref_init = v
                ctx.probe("init:vector")
                if kind == "dm" and tape.chance(1, 2, "init-as-density-matrix?"):
                    # the same state handed over as a density matrix, in the simulator's own dtype or the other
                    # one (the caller's array is what the run must leave untouched)
                    rho0 = np.outer(v, v.conj())
                    init = rho0.astype(dtype if tape.chance(2, 3, "init-same-dtype?") else
                                       (np.complex128 if dtype == np.complex64 else np.complex64))
                    ref_init = rho0
                    ctx.probe("init:density-matrix")
            n_leaves = qdrive.check_simulate(P, circuit, cfg, ctx, max_leaves=400, qubit_order=order,
                                             initial_state=init, ref_initial=ref_init, stepwise=(entry == "steps"),
                                             sample_in_steps=(entry == "steps" and tape.chance(1, 2, "sample-in-steps?")))
        _ = general_ops_terminal
        ctx.decide("case", repr(circuit), cfg.describe(), entry, reps, n_leaves)
        ctx.nontrivial = n_leaves >= 2
        ctx.steps += n_leaves
        ctx.probe("leaves", n_leaves)
        sig = tuple(sorted(set(g.kinds)))
        ctx.state((sig, kind, entry, tuple(sorted(g.features))[:4]))
        diagram = str(circuit).splitlines()
        ctx.sample = {"circuit": diagram if len(diagram) <= 24 and max(map(len, diagram), default=0) < 200
                      else [repr(op)[:120] for op in circuit.all_operations()][:20], "simulator": cfg.describe(), "entry": entry,
                      "repetitions": reps, "leaves_explored": n_leaves, "features": sorted(g.features)}

    # -- entry points: the measuring / sampling functions themselves, and sample_from_amplitudes -------------
    def _direct_functions(self, tape, ctx: Ctx) -> None:
        """cirq.sample_state_vector / measure_state_vector / sample_density_matrix /
        measure_density_matrix on a tape-drawn state, and Simulator.sample_from_amplitudes: outcome
        distribution = Born marginal, collapse = projection, and "sampling a state never changes it"."""
        cirq = self.cirq
        sp = __import__("engines.scripted_prng", fromlist=["x"])
        ctx.probe("entry:direct-functions")
        which = tape.draw(5, "direct-fn")
        n = 1 + tape.draw(3, "n-qudits")
        dims = [3 if tape.chance(1, 6, "qutrit?") else 2 for _ in range(n)]
        D = int(np.prod(dims))
        dtype = np.complex128 if tape.chance(1, 2, "dtype128?") else np.complex64
        tol = 5e-5 if dtype == np.complex64 else 1e-7
        vals = [tape.draw(9, "amp") - 4 for _ in range(2 * D)]
        v = np.array(vals[:D], dtype=float) + 1j * np.array(vals[D:], dtype=float)
        if np.linalg.norm(v) == 0:
            v[0] = 1
        v = v / np.linalg.norm(v)
        k = 1 + tape.draw(n, "n-indices")
        pool = list(range(n))
        indices = [pool.pop(tape.draw(len(pool), "index")) for _ in range(k)]
        digits = np.array(list(np.ndindex(*dims))).reshape(-1, n)
        probs_full = np.abs(v) ** 2
        marg = {}
        for row, p in zip(digits, probs_full):
            key = tuple(int(row[i]) for i in indices)
            marg[key] = marg.get(key, 0.0) + float(p)
        names = ["sample_state_vector", "measure_state_vector", "sample_density_matrix", "measure_density_matrix",
                 "sample_from_amplitudes"]
        fn = names[which]
        ctx.probe("direct:" + fn)
        if fn == "sample_from_amplitudes":
            return self._sample_from_amplitudes(tape, ctx)
        reps = 1 + tape.draw(2, "reps")
        state = v.astype(dtype)
        if tape.chance(1, 2, "tensor-shaped?"):
            state = state.reshape(dims)
        rho = np.outer(v, v.conj()).astype(dtype)
        if fn.endswith("density_matrix") and tape.chance(1, 2, "tensor-shaped-rho?"):
            rho = rho.reshape(dims + dims)
        out_mode = tape.draw(3, "out-mode")      # None / separate buffer / in place

        def leaf(prng):
            if fn == "sample_state_vector":
                before = state.copy()
                r = cirq.sample_state_vector(state, indices, qid_shape=tuple(dims), repetitions=reps, seed=prng)
                if not np.array_equal(before, state):
                    raise Violation(f"{P}-SAMPLE-MUTATES", f"cirq.sample_state_vector changed its input state")
                return tuple(tuple(int(x) for x in row) for row in r), None
            if fn == "sample_density_matrix":
                before = rho.copy()
                r = cirq.sample_density_matrix(rho, indices, qid_shape=tuple(dims), repetitions=reps, seed=prng)
                if not np.array_equal(before, rho):
                    raise Violation(f"{P}-SAMPLE-MUTATES", f"cirq.sample_density_matrix changed its input state")
                return tuple(tuple(int(x) for x in row) for row in r), None
            if fn == "measure_state_vector":
                src = state.copy()
                out = None if out_mode == 0 else (np.empty_like(src) if out_mode == 1 else src)
                before = src.copy()
                bits, post = cirq.measure_state_vector(src, indices, qid_shape=tuple(dims), out=out, seed=prng)
                if out_mode != 2 and not np.array_equal(before, src):
                    raise Violation(f"{P}-SAMPLE-MUTATES", f"cirq.measure_state_vector(out={'None' if out_mode == 0 else 'buffer'}) "
                                                           f"changed its input state")
                return (tuple(int(b) for b in bits),), np.asarray(post, dtype=np.complex128).reshape(-1)
            src = rho.copy()
            out = None if out_mode == 0 else (np.empty_like(src) if out_mode == 1 else src)
            before = src.copy()
            bits, post = cirq.measure_density_matrix(src, indices, qid_shape=tuple(dims), out=out, seed=prng)
            if out_mode != 2 and not np.array_equal(before, src):
                raise Violation(f"{P}-SAMPLE-MUTATES", f"cirq.measure_density_matrix(out={'None' if out_mode == 0 else 'buffer'}) "
                                                       f"changed its input state")
            return (tuple(int(b) for b in bits),), np.asarray(post, dtype=np.complex128).reshape(D, D)

        leaves = sp.explore(leaf, 400)
        w = {}
        for wt, (rows, post), _t in leaves:
            w[rows] = w.get(rows, 0.0) + wt
            if post is not None:
                key = rows[0]
                mask = np.array([tuple(int(r[i]) for i in indices) == key for r in digits])
                want = np.where(mask, v, 0)
                want = want / np.linalg.norm(want)
                got = post if post.ndim == 1 else None
                if got is not None:
                    if np.max(np.abs(got - want)) > tol * 20:
                        raise Violation(f"{P}-STATE", f"cirq.{fn}: post-measurement state for outcome {key} is not the "
                                                      f"projection of the input (dims {dims}, indices {indices})")
                else:
                    wrho = np.outer(want, want.conj())
                    if np.max(np.abs(post - wrho)) > tol * 20:
                        raise Violation(f"{P}-STATE", f"cirq.{fn}: post-measurement density matrix for outcome {key} is "
                                                      f"not the projection of the input (dims {dims}, indices {indices})")
        for rows, wt in w.items():
            expect = 1.0
            for r in rows:
                expect *= marg.get(r, 0.0)
            if abs(wt - expect) > tol * 8:
                raise Violation(f"{P}-DIST", f"cirq.{fn}(indices={indices}, dims={dims}): outcomes {rows} have probability "
                                             f"{wt:.7f}, the Born marginal gives {expect:.7f}")
        if abs(sum(w.values()) - 1) > tol * 8:
            raise Violation(f"{P}-DIST", f"cirq.{fn}: offered probabilities sum to {sum(w.values())}")
        ctx.decide("case", fn, dims, indices, np.dtype(dtype).name, reps, out_mode, len(leaves))
        ctx.nontrivial = len(leaves) >= 2
        ctx.steps += len(leaves)
        ctx.state(("direct", fn, tuple(dims), len(indices), out_mode))
        ctx.sample = {"entry": f"cirq.{fn}", "dims": dims, "indices": indices, "repetitions": reps,
                      "out": ["None", "buffer", "in place"][out_mode], "leaves_explored": len(leaves)}

    def _step_sampling(self, tape, ctx: Ctx) -> None:
        """StepResult.sample / StepResult.sample_measurement_ops called by the user on the state after a
        moment, with the seed forms the API accepts: a generator object or an integer.  An integer seed is
        one pseudo-random stream (engines.scripted_prng.int_seeds_scripted): over the seeds, the sampled
        values must still be Born-distributed, jointly over all sampled qubits and repetitions."""
        cirq = self.cirq
        sp = __import__("engines.scripted_prng", fromlist=["x"])
        qref = __import__("engines.qref", fromlist=["x"])
        ctx.probe("entry:step-sampling")
        g = self.qgen.Gen(tape, allow_measure=False, allow_control=False, allow_reset=False,
                          allow_pauli_measure=False, max_qudits=4, max_ops=6)
        circuit = g.circuit()
        for q in g.qudits:
            if q not in circuit.all_qubits():
                circuit.append(cirq.I(q) if q.dimension == 2 else cirq.IdentityGate(qid_shape=(q.dimension,)).on(q))
        qs = sorted(circuit.all_qubits())
        kind = "dm" if tape.chance(1, 3, "dm?") else "sv"
        split = not tape.chance(1, 4, "no-split?")
        dtype = np.complex128 if tape.chance(1, 2, "dtype128?") else np.complex64
        cfg = self.qdrive.SimConfig(kind, dtype=dtype, split=split)
        at = tape.draw(len(circuit), "after-moment")
        prefix = cirq.Circuit(circuit[:at + 1])
        for q in qs:
            if q not in prefix.all_qubits():
                prefix.append(cirq.I(q) if q.dimension == 2 else cirq.IdentityGate(qid_shape=(q.dimension,)).on(q))
        api = tape.draw(2, "api")
        int_seed = tape.chance(2, 3, "integer-seed?")
        seed_value = [0, 5, 1234567][tape.draw(3, "seed-value")]
        reps = 1 + tape.draw(2, "reps")
        if api == 0:
            k = 1 + tape.draw(len(qs), "n-sampled")
            sampled = tape.shuffle(list(qs), "sampled")[:k]
            mops = [cirq.measure(*sampled, key="s")]
        else:
            mops = []
            for i in range(1 + tape.draw(3, "n-measure-ops")):
                k = 1 + tape.draw(min(2, len(qs)), "m-width")
                targets = tape.shuffle(list(qs), "m-qubits")[:k]
                inv = tuple(bool(tape.draw(2, "invert")) for _ in targets) if tape.chance(1, 3, "invert?") else ()
                cmap = {}
                if tape.chance(1, 3, "confusion?"):
                    d = targets[0].dimension
                    rows = []
                    for r in range(d):
                        wts = [1 + tape.draw(4, "cm-w") for _ in range(d)]
                        rows.append([x / sum(wts) for x in wts])
                    cmap = {(0,): np.array(rows)}
                mops.append(cirq.MeasurementGate(qid_shape=tuple(q.dimension for q in targets), key=f"m{i}",
                                                 invert_mask=inv, confusion_map=cmap).on(*targets))
        # reference: the measurements applied one after the other to the state after the moment
        ref_c = prefix + cirq.Circuit(cirq.Moment(op) for op in mops)
        branches = qref.QRef(qs).run(ref_c, 0)
        p_ref = {k: v[0] for k, v in qref.merge_by_records(branches).items()}

        def rows_of(res, r):
            if api == 0:
                return ((("s", (tuple(int(x) for x in res[r]),)),), ())
            return (tuple((key, (tuple(int(x) for x in res[key][r]),)) for key in sorted(res)), ())

        def leaf(prng):
            sim = cfg.make(prng)
            step = None
            for i, st in enumerate(sim.simulate_moment_steps(prefix, qubit_order=qs)):
                step = st
            with sp.int_seeds_scripted(prng) as fam:
                seed = seed_value if int_seed else prng
                if api == 0:
                    res = step.sample(sampled, repetitions=reps, seed=seed)
                else:
                    res = step.sample_measurement_ops(mops, repetitions=reps, seed=seed)
            return tuple(rows_of(res, r) for r in range(reps)), fam.made, fam.replayed

        try:
            leaves = sp.explore(leaf, 600)
        except sp.TreeTooLarge:
            ctx.probe("tree-too-large")
            return
        except sp.UnmodelledSeedReuse:
            ctx.probe("step-sampling:unmodelled-seed-reuse")
            return
        tol = cfg.tol()
        w = {}
        made = replayed = 0
        for wt, (keys, m, rp), _t in leaves:
            w[keys] = w.get(keys, 0.0) + wt
            made, replayed = max(made, m), max(replayed, rp)
        if int_seed:
            ctx.probe("step-sampling:integer-seed")
            if replayed:
                ctx.fault("integer-seed-stream-reuse")
        what = (f"StepResult.{'sample' if api == 0 else 'sample_measurement_ops'}(..., repetitions={reps}, "
                f"seed={seed_value if int_seed else '<generator>'}) [{cfg.describe()}]")
        n = len(leaves)
        if abs(sum(w.values()) - 1.0) > tol * max(4, n):
            raise Violation(f"{P}-DIST", f"{what}: leaf weights sum to {sum(w.values()):.9f}\n{ref_c}")
        for keys, wt in sorted(w.items()):
            expect = 1.0
            for k in keys:
                expect *= p_ref.get(k, 0.0)
            if abs(wt - expect) > tol * max(4, math.sqrt(n)):
                raise Violation(f"{P}-DIST",
                                f"{what}: values {self.qdrive._fmt_keys(keys)} have probability {wt:.7f}"
                                f"{' over the seeds' if int_seed else ''} but {expect:.7f} by the Born rule\n{ref_c}")
        ctx.decide("case", repr(ref_c), cfg.describe(), api, int_seed, seed_value, reps, n)
        ctx.nontrivial = n >= 2
        ctx.steps += n
        ctx.state(("step-sampling", api, int_seed, kind, split, len(qs), min(n, 16)))
        ctx.sample = {"entry": what, "circuit": str(ref_c).splitlines()[:16], "leaves_explored": n,
                      "generators_made_from_the_integer": made, "draws_repeated_from_one_stream": replayed}

    def _stabilizer_measure(self, tape, ctx: Ctx) -> None:
        """CliffordTableau.measure / StabilizerStateChForm.measure called directly on a state built by a Clifford
        circuit, with a generator object or an integer as seed: the joint distribution of the measured axes is
        the Born distribution (over the seeds, for an integer)."""
        cirq = self.cirq
        sp = __import__("engines.scripted_prng", fromlist=["x"])
        qref = __import__("engines.qref", fromlist=["x"])
        ctx.probe("entry:stabilizer-measure")
        g = self.qgen.Gen(tape, clifford_only=True, allow_measure=False, allow_control=False, allow_reset=False,
                          allow_pauli_measure=False, max_qudits=4, max_ops=8)
        circuit = g.circuit()
        for q in g.qudits:
            if q not in circuit.all_qubits():
                circuit.append(cirq.I(q))
        circuit = cirq.Circuit(op for op in circuit.all_operations() if op.qubits)     # no qubit-less phases here
        qs = sorted(g.qudits)
        n = len(qs)
        which = tape.draw(2, "representation")     # 0 tableau, 1 CH form
        int_seed = tape.chance(2, 3, "integer-seed?")
        seed_value = [0, 3, 99][tape.draw(3, "seed-value")]
        k = 1 + tape.draw(n, "n-axes")
        axes = tape.shuffle(list(range(n)), "axes")[:k]
        ref_c = circuit + cirq.Circuit(cirq.measure(*[qs[a] for a in axes], key="s"))
        branches = qref.QRef(qs).run(ref_c, 0)
        p_ref = {kk[0][0][1][0]: v[0] for kk, v in qref.merge_by_records(branches).items()}

        def leaf(prng):
            if which == 0:
                st = cirq.CliffordTableauSimulationState(cirq.CliffordTableau(n), qubits=qs, prng=prng)
                rep = st.tableau
            else:
                st = cirq.StabilizerChFormSimulationState(qubits=qs, prng=prng, initial_state=0)
                rep = st.state
            for op in circuit.all_operations():
                cirq.act_on(op, st)
            rep = st.tableau if which == 0 else st.state
            with sp.int_seeds_scripted(prng) as fam:
                out = rep.measure(list(axes), seed=(seed_value if int_seed else prng))
            return tuple(int(b) for b in out), fam.replayed

        try:
            leaves = sp.explore(leaf, 300)
        except (sp.TreeTooLarge, sp.UnmodelledSeedReuse):
            ctx.probe("tree-too-large")
            return
        w = {}
        replayed = 0
        for wt, (bits, rp), _t in leaves:
            w[bits] = w.get(bits, 0.0) + wt
            replayed = max(replayed, rp)
        if replayed:
            ctx.fault("integer-seed-stream-reuse")
        what = (f"{'CliffordTableau' if which == 0 else 'StabilizerStateChForm'}.measure({axes}, "
                f"seed={seed_value if int_seed else '<generator>'})")
        for bits in set(w) | set(p_ref):
            if abs(w.get(bits, 0.0) - p_ref.get(bits, 0.0)) > 1e-6:
                raise Violation(f"{P}-DIST", f"{what}: outcome {bits} has probability {w.get(bits, 0.0):.6f}"
                                             f"{' over the seeds' if int_seed else ''}, the Born rule gives "
                                             f"{p_ref.get(bits, 0.0):.6f}\n{ref_c}")
        ctx.decide("case", repr(ref_c), which, int_seed, seed_value, axes, len(leaves))
        ctx.nontrivial = len(leaves) >= 2
        ctx.steps += len(leaves)
        ctx.state(("stabilizer-measure", which, int_seed, n, len(axes), min(len(leaves), 8)))
        ctx.sample = {"entry": what, "circuit": str(ref_c).splitlines()[:14], "leaves_explored": len(leaves)}

    def _mux_qudit_reset(self, tape, ctx: Ctx) -> None:
        """cirq.sample() chooses a simulator from what the operations say about themselves.  A circuit whose
        qubit part is Clifford and which resets and measures a qutrit must not go to the stabilizer simulator
        (which cannot hold a qutrit); whatever is chosen, the records follow the Born rule."""
        cirq = self.cirq
        ctx.probe("entry:mux-qudit-reset")
        q3 = cirq.LineQid(0, dimension=3)
        qb = cirq.LineQubit(1)
        ops = []
        if tape.chance(1, 2, "excite-qutrit?"):
            ops.append(cirq.XPowGate(dimension=3).on(q3) ** (1 + tape.draw(2, "x3-exp")))
        ops.append([cirq.H, cirq.X, cirq.S][tape.draw(3, "cl-1q")].on(qb))
        ops.append(cirq.ResetChannel(3).on(q3))
        if tape.chance(1, 2, "measure-qutrit?"):
            ops.append(cirq.measure(q3, key="a"))
        ops.append(cirq.measure(qb, key="b"))
        circuit = cirq.Circuit(ops)
        cfg = self.qdrive.SimConfig("dm", dtype=np.complex64)
        n = self.qdrive.check_run(P, circuit, cfg, 1 + tape.draw(2, "reps"), ctx, max_leaves=100, entry="sample")
        ctx.decide("case", repr(circuit), "mux-qudit-reset", n)
        ctx.nontrivial = True
        ctx.steps += n
        ctx.state(("mux-qudit-reset", len(ops), n))
        ctx.sample = {"entry": "cirq.sample", "circuit": str(circuit).splitlines(), "leaves_explored": n}

    def _wide_register(self, tape, ctx: Ctx) -> None:
        """Registers far too wide for a dense state, which the product-state simulators handle qubit by qubit:
        a computational basis state given as an integer, a few flips, every qubit measured.  The records are
        determined: bit i of the result is bit i of the initial state, flipped where an X acted."""
        cirq = self.cirq
        sp = __import__("engines.scripted_prng", fromlist=["x"])
        ctx.probe("entry:wide-register")
        n = 40 + tape.draw(30, "n-qubits")
        qs = cirq.LineQubit.range(n)
        bits = [tape.draw(2, "bit") if i < 6 or i > n - 8 else (i * 7 + n) % 3 % 2 for i in range(n)]
        if tape.chance(1, 2, "all-ones?"):
            bits = [1] * n
        init = int("".join(map(str, bits)), 2)
        flips = sorted(set(tape.draw(n, "flip") for _ in range(tape.draw(4, "n-flips"))))
        if tape.chance(1, 3, "wide-key-control?"):
            return self._wide_key_control(tape, ctx, n, qs)
        kind = "dm" if tape.chance(1, 3, "dm?") else "sv"
        grp = 4 if kind == "dm" else 8       # a joint measurement merges its qubits into one dense state
        circuit = cirq.Circuit([cirq.X(qs[i]) for i in flips],
                               [cirq.measure(*qs[j:j + grp], key=f"m{j}") for j in range(0, n, grp)])
        want = list(bits)
        for i in flips:
            want[i] ^= 1

        def leaf(prng):
            sim = (cirq.Simulator if kind == "sv" else cirq.DensityMatrixSimulator)(seed=prng)
            res = sim.simulate(circuit, initial_state=init, qubit_order=qs)
            return [int(b) for j in range(0, n, grp) for b in res.measurements[f"m{j}"]]

        leaves = sp.explore(leaf, 4)
        for _w, got, _t in leaves:
            if got != want:
                bad = [i for i in range(n) if got[i] != want[i]]
                raise Violation(f"{P}-DIST", f"{kind} simulate of {n} qubits from basis state {init} (bits "
                                             f"{''.join(map(str, bits))}), X on {flips}, all measured: qubits {bad} "
                                             f"read {[got[i] for i in bad]} instead of {[want[i] for i in bad]}")
        ctx.decide("case", "wide-register", n, init, flips, kind)
        ctx.nontrivial = True
        ctx.steps += 1
        ctx.state(("wide-register", kind, n > 53, bool(flips)))
        ctx.sample = {"entry": f"{kind} simulate, {n} qubits, integer initial state, all measured", "flips": flips}

    def _wide_key_control(self, tape, ctx: Ctx, n: int, qs) -> None:
        """One measurement key over a register wider than a machine word (the stabilizer simulators handle it),
        and an operation conditioned on that key: the condition is about the integer the record spells."""
        cirq = self.cirq
        sp = __import__("engines.scripted_prng", fromlist=["x"])
        import sympy
        ctx.probe("entry:wide-key-control")
        n = max(n, 60) + tape.draw(20, "extra-width")
        qs = cirq.LineQubit.range(n)
        target = cirq.LineQubit(n + 5)
        ones = sorted(set(tape.draw(n, "one-at") for _ in range(1 + tape.draw(2, "n-ones"))))
        if tape.chance(1, 2, "only-high-bits?"):
            ones = [i for i in ones if i < n - 64] or [0]
        value = sum(1 << (n - 1 - i) for i in ones)
        form = tape.draw(3, "cond-form")
        if form == 0:
            cond, want = cirq.KeyCondition(cirq.MeasurementKey("m")), 1 if value else 0
        elif form == 1:
            cond, want = cirq.SympyCondition(sympy.Symbol("m") >= 2 ** 63), 1 if value >= 2 ** 63 else 0
        else:
            cond, want = cirq.BitMaskKeyCondition("m", target_value=value, equal_target=True), 1
        circuit = cirq.Circuit([cirq.X(qs[i]) for i in ones], cirq.measure(*qs, key="m"),
                               cirq.X(target).with_classical_controls(cond), cirq.measure(target, key="t"))
        which = tape.draw(2, "stabilizer-simulator")

        def leaf(prng):
            sim = cirq.CliffordSimulator(seed=prng) if which == 0 else cirq.StabilizerSampler(seed=prng)
            return int(sim.run(circuit, repetitions=1).measurements["t"][0][0])

        for _w, got, _t in sp.explore(leaf, 4):
            if got != want:
                raise Violation(f"{P}-DIST", f"{'CliffordSimulator' if which == 0 else 'StabilizerSampler'}: key 'm' over {n} "
                                             f"qubits records the integer {value} (ones at {ones}); X conditioned on "
                                             f"{cond} gave t={got}, expected {want}")
        ctx.decide("case", "wide-key-control", n, ones, form, which)
        ctx.nontrivial = True
        ctx.steps += 1
        ctx.state(("wide-key-control", form, which, value >= 2 ** 63))
        ctx.sample = {"entry": "classical control on a key wider than 64 qubits", "width": n, "ones": ones,
                      "condition": str(cond)}

    def _sample_from_amplitudes(self, tape, ctx: Ctx) -> None:
        cirq = self.cirq
        sp = __import__("engines.scripted_prng", fromlist=["x"])
        qref = __import__("engines.qref", fromlist=["x"])
        g = self.qgen.Gen(tape, allow_measure=False, allow_control=False, allow_reset=False, allow_qudits=False,
                          allow_pauli_measure=False, max_qudits=3, max_ops=6)
        circuit = g.circuit()
        for q in g.qudits:
            if q not in circuit.all_qubits():
                circuit.append(cirq.I(q))
        qs = sorted(circuit.all_qubits())
        reps = 1 + tape.draw(2, "reps")
        # the returned integers are big-endian bitstrings in the caller's qubit order
        order = list(qs)
        if len(order) > 1 and tape.chance(1, 2, "permute-order?"):
            order = tape.shuffle(order, "order")
            ctx.probe("order:permuted")
        default_order = order == qs and tape.chance(1, 3, "default-order?")
        ref = qref.QRef(order)
        psi = ref.run(circuit, 0)[0].psi
        p = np.abs(psi) ** 2

        def leaf(prng):
            sim = cirq.Simulator(seed=prng, dtype=np.complex128)
            if default_order:
                return sim.sample_from_amplitudes(circuit, cirq.ParamResolver({}), seed=prng, repetitions=reps)
            return sim.sample_from_amplitudes(circuit, cirq.ParamResolver({}), seed=prng, repetitions=reps,
                                              qubit_order=order)

        try:
            leaves = sp.explore(leaf, 150)
        except sp.TreeTooLarge:
            ctx.probe("tree-too-large")
            return
        # distribution over multisets of bitstrings
        w = {}
        for wt, counts, _t in leaves:
            key = tuple(sorted(counts.items()))
            w[key] = w.get(key, 0.0) + wt
        import itertools
        import math as _m
        expect = {}
        for combo in itertools.product(range(len(p)), repeat=reps):
            key = {}
            for c in combo:
                key[c] = key.get(c, 0) + 1
            pr = 1.0
            for c in combo:
                pr *= float(p[c])
            kk = tuple(sorted(key.items()))
            expect[kk] = expect.get(kk, 0.0) + pr
        for kk in set(w) | set(expect):
            if abs(w.get(kk, 0.0) - expect.get(kk, 0.0)) > 1e-6 * max(4, _m.sqrt(len(leaves))):
                raise Violation(f"{P}-DIST", f"Simulator.sample_from_amplitudes: sample multiset {dict(kk)} has probability "
                                             f"{w.get(kk, 0.0):.7f}, the Born rule gives {expect.get(kk, 0.0):.7f}\n{circuit}")
        ctx.decide("case", "sample_from_amplitudes", repr(circuit), reps, len(leaves), repr(order), default_order)
        ctx.nontrivial = len(leaves) >= 2
        ctx.steps += len(leaves)
        ctx.state(("direct", "sample_from_amplitudes", len(qs), reps))
        ctx.sample = {"entry": "Simulator.sample_from_amplitudes", "circuit": str(circuit).splitlines()[:12],
                      "repetitions": reps, "leaves_explored": len(leaves)}

    # -- entry point: simulate_sweep started from a SimulationState that already holds records -----------
    def _sweep_from_state(self, tape, ctx: Ctx) -> None:
        """`simulate_sweep(program, params, initial_state=<SimulationState>)` is documented.  The state may
        already hold measurement records (it is the state of an earlier, measured segment).  Every sweep
        point must then behave as an independent continuation of that segment: its measurements, the
        operations it conditions on earlier records, and its final state depend on the segment and on
        its own draws only."""
        import sympy
        cirq = self.cirq
        sp = __import__("engines.scripted_prng", fromlist=["x"])
        qref = __import__("engines.qref", fromlist=["x"])
        ctx.probe("entry:sweep-from-state")
        n = 1 + tape.draw(2, "n-qubits")
        qs = cirq.LineQubit.range(n)
        kind = ["sv", "dm"][tape.draw(2, "sim-kind")]
        dtype = np.complex128 if tape.chance(1, 2, "dtype128?") else np.complex64
        ctx.probe("sim:" + kind)
        angle = lambda lab: math.pi / 8 * qgen_pick(tape, lab)  # noqa: E731
        # segment 1: rotate, measure key "a" (and maybe "b")
        seg1 = [cirq.ry(angle("angle")).on(q) for q in qs]
        seg1.append(cirq.measure(qs[0], key="a"))
        if n > 1 and tape.chance(1, 2, "seg1-b?"):
            seg1.append(cirq.measure(qs[1], key="b"))
        # the swept program: parameterised rotation, measure "a" again, then act on an *indexed* record
        t = sympy.Symbol("t")
        idx = [1, -1, 0, -2][tape.draw(4, "cond-index")]
        target = qs[-1]
        program = cirq.Circuit(
            (cirq.X ** t).on(qs[0]),
            cirq.ry(angle("angle")).on(qs[0]),
            cirq.measure(qs[0], key="a"),
            cirq.X(target).with_classical_controls(cirq.KeyCondition(cirq.MeasurementKey("a"), index=idx)),
        )
        if tape.chance(1, 2, "final-measure?"):
            program.append(cirq.measure(target, key="c"))
        values = [[1, 0], [0.5, 1], [0, 1, 0.5]][tape.draw(3, "sweep-values")]
        sweep = cirq.Points("t", values)
        tol = 5e-5 if dtype == np.complex64 else 1e-6

        def leaf(prng):
            if kind == "sv":
                st = cirq.StateVectorSimulationState(qubits=qs, initial_state=0, prng=prng, dtype=dtype)
                sim = cirq.Simulator(seed=prng, dtype=dtype)
            else:
                st = cirq.DensityMatrixSimulationState(qubits=qs, initial_state=0, prng=prng, dtype=dtype)
                sim = cirq.DensityMatrixSimulator(seed=prng, dtype=dtype)
            for op in seg1:
                cirq.act_on(op, st)
            seg_records = tuple(sorted((str(k), tuple(tuple(int(x) for x in r) for r in v))
                                       for k, v in st.classical_data.records.items()))
            results = sim.simulate_sweep(program, params=sweep, qubit_order=qs, initial_state=st)
            out = []
            for r in results:
                meas = tuple(sorted((k, tuple(int(x) for x in v)) for k, v in r.measurements.items()))
                if kind == "sv":
                    v = np.asarray(r.final_state_vector, dtype=np.complex128)
                    rho = np.outer(v, v.conj())
                else:
                    rho = np.asarray(r.final_density_matrix, dtype=np.complex128)
                out.append((meas, rho))
            return seg_records, out

        try:
            leaves = sp.explore(leaf, 400)
        except sp.TreeTooLarge:
            ctx.probe("tree-too-large")
            return
        # reference: segment 1, then each sweep point independently from each segment branch
        ref = qref.QRef(qs)
        seg_branches = ref.run(cirq.Circuit(seg1), 0)
        expect = {}     # (seg_records, point index, meas-last-instance) -> [prob, weighted rho]
        for b in seg_branches:
            seg_key = tuple(sorted((k, v) for k, v in b.records.items()))
            for i, resolver in enumerate(cirq.to_resolvers(sweep)):
                resolved = cirq.resolve_parameters(program, resolver)
                branches = [b.fork(b.prob, b._rho, b.psi)]
                for moment in resolved:
                    for op in moment.operations:
                        branches = ref.step(branches, op)
                for fb in branches:
                    k = (seg_key, i, tuple(sorted((kk, vv[-1]) for kk, vv in fb.records.items())))
                    e = expect.setdefault(k, [0.0, None])
                    e[0] += fb.prob
                    e[1] = fb.prob * fb.rho if e[1] is None else e[1] + fb.prob * fb.rho
        got = {}
        total = 0.0
        for w, (seg_records, out), _trace in leaves:
            total += w
            for i, (meas, rho) in enumerate(out):
                g = got.setdefault((seg_records, i, meas), [0.0, None])
                g[0] += w
                g[1] = w * rho if g[1] is None else g[1] + w * rho
        desc = f"[{kind}/{np.dtype(dtype).name} simulate_sweep from a SimulationState holding records]"
        if abs(total - 1) > tol * 8:
            raise Violation(f"{P}-DIST", f"{desc} leaf weights sum to {total}")
        nlv = len(leaves)
        for k in sorted(set(got) | set(expect), key=repr):
            g = got.get(k, [0.0, None])
            e = expect.get(k, [0.0, None])
            if abs(g[0] - e[0]) > tol * max(4, math.sqrt(nlv)):
                raise Violation(f"{P}-DIST",
                                f"{desc} sweep point {k[1]} (t={values[k[1]]}): after segment records {dict(k[0])} the "
                                f"measurements {dict(k[2])} have probability {g[0]:.6f} under the simulator but "
                                f"{e[0]:.6f} for an independent continuation of the segment\nsegment: {cirq.Circuit(seg1)}\n"
                                f"program:\n{program}")
            if g[1] is not None and e[1] is not None and float(np.max(np.abs(g[1] - e[1]))) > tol * max(4, math.sqrt(nlv)):
                raise Violation(f"{P}-STATE",
                                f"{desc} sweep point {k[1]} (t={values[k[1]]}): final state differs from an independent "
                                f"continuation of the segment (records {dict(k[0])}, measurements {dict(k[2])})\n"
                                f"segment: {cirq.Circuit(seg1)}\nprogram:\n{program}")
        ctx.decide("case", "sweep-from-state", repr(program), repr(seg1), kind, np.dtype(dtype).name, values, nlv)
        ctx.nontrivial = nlv >= 2
        ctx.steps += nlv
        ctx.probe("leaves", nlv)
        ctx.state(("sweep-from-state", kind, idx, len(values)))
        ctx.sample = {"entry": "simulate_sweep(initial_state=SimulationState with records)", "segment": [str(o) for o in seg1],
                      "program": str(program).splitlines(), "sweep_t": values, "simulator": kind, "leaves_explored": nlv}

    @staticmethod
    def _is_terminal_path(cirq, circuit) -> bool:
        """Mirror of what decides the fast path: after the unitary prefix only measurement gates remain."""
        seen_non_unitary = False
        blocked = set()
        for moment in circuit:
            for op in moment.operations:
                if not cirq.has_unitary(op) or any(q in blocked for q in op.qubits):
                    blocked.update(op.qubits)
                    if not isinstance(op.gate, cirq.MeasurementGate):
                        return False
                    seen_non_unitary = True
        return seen_non_unitary


CHECK = C02()
