"""C20 -- asynchronous job orchestration resolves every job exactly once."""
from __future__ import annotations

from simkit.core import Check, Ctx


class C20(Check):
    property_id = "C20"
    engine = "E1 SimDuet + E2 SimLoop + E3 model Quantum Engine"
    technique = ("deterministic simulation: real duet/asyncio code stepped by a seeded scheduler, "
                 "model Quantum Engine peer, injected stream/job/cancel faults, history oracles")
    rule = ("one run = one tape-decided schedule (completion order, event interleaving, fault placement) of one "
            "workload (W1 collector, W2 sampler fan-out, W3 stream client); non-trivial = at least two jobs "
            "were started; distinct = distinct digest of the decoded decision sequence (config + every "
            "scheduler/fault decision)")
    state_measure = "workload-specific abstract states (see DESIGN.md C20: evidence specifics)"
    assumptions = [
        "interleaving granularity is one duet task advance / one asyncio callback / one server action; "
        "bytecode-level races between the duet thread and the asyncio thread are not explored",
        "the Quantum Engine is a model (E3) inferred from the client's retry table, the proto enum and the "
        "repository's own fake stream",
    ]
    real_vs_stub = {
        "real": "duet 0.2.9 (tasks, scopes, Limiter, AsyncCollector), asyncio tasks/queues/futures, cirq.Collector, "
                "cirq.Sampler shims and run_batch, ProcessorSampler, StreamManager, ResponseDemux, "
                "AsyncioExecutor.submit, EngineClient (_run_retry_async), EngineJob (results_async, polling, "
                "recreate), Engine.run_sweep_async",
        "stub": "duet Scheduler.time and the wait for readiness; the asyncio loop's selector/clock/thread "
                "(AsyncioExecutor.__init__ never runs); gRPC transport and Quantum Engine server (model E3); "
                "sampler/processor back ends of W1/W2 (fakes completed by the simulator)",
    }
    tiers = {"quick": {"runs": 60000, "wall": 85}, "thorough": {"runs": 3000000, "wall": 1200}}
    expected_probes = ["w1:out-of-order-completion", "w1:declined-with-work-left", "w1:budget-exhausted",
                       "w1:error-with-jobs-in-flight", "w1:pauli-sum-collector", "w1:pauli-out-of-order-completion",
                       "w3:JOB_ALREADY_EXISTS", "w3:JOB_ALREADY_EXISTS-on-create-both", "w3:PROGRAM_ALREADY_EXISTS", "w3:JOB_DOES_NOT_EXIST",
                       "w3:PROGRAM_DOES_NOT_EXIST", "w3:break-with-two-in-flight", "w3:T2-reader-death",
                       "w3:cancel-before-request-queued", "w3:cancel-with-request-out", "w3:cancel-rpc-sent",
                       "w3:reply-for-stale-request", "w3:submit-after-stop", "w3:stop-with-unsent-request", "w3:connect-stalled", "w3:result-after-retry",
                       "w2:out-of-order-completion", "w2:batched-job", "w2:limiter-saturated", "w2:repeated-call-on-one-sampler", "w2:call-after-failed-call", "w2:equal-observables", "w2:equal-sweep-points",
                       "l2:result", "l2:polling-fallback", "l2:recreate-path", "l2:unary-fault-fired",
                       "l2:error:timeout", "l2:error:nonretryable-break", "l2:minutes-of-virtual-time"]

    def setup(self) -> None:
        from simkit import repoenv
        import cirq
        repoenv.assert_working_tree(cirq)
        import cirq_google
        repoenv.assert_working_tree(cirq_google)
        from checks import c20_l2, c20_w1, c20_w2, c20_w3
        self._l2 = c20_l2
        self._w1 = c20_w1
        self._w2 = c20_w2
        self._w3 = c20_w3

    def run_one(self, tape, ctx: Ctx) -> None:
        w = tape.weighted([3, 6, 2, 3], "workload")
        if w == 0:
            if tape.chance(1, 5, "pauli-sum-collector?"):
                self._w1.run_pauli(tape, ctx)
            else:
                self._w1.run(tape, ctx)
        elif w == 1:
            self._w3.run(tape, ctx)
        elif w == 2:
            self._w2.run(tape, ctx)
        else:
            self._l2.run(tape, ctx)


CHECK = C20()
