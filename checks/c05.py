"""C05 -- circuits stay well-formed and order-preserving under any edit history.

Engine E5 (edit-history machine): a tape-driven sequence of <= 24 public calls on a pool of
1-3 live cirq.Circuit objects, with calls that fail part-way injected as faults, checked call
by call against the list-of-lists reference model in engines/circuit_model.py and against a
freshly rebuilt circuit (cache coherence).  See DESIGN.md section 3 (E5) and section 4 (C05).

Violation classes: C05-OVERLAP, C05-LOST, C05-DUP, C05-ATOMIC, C05-ORDER, C05-PLACE, C05-RETURN,
C05-STALE:<query>[@iter-raises], C05-PLACEMENT-CACHE, C05-ALIAS, C05-HASH, C05-FACTORIZE, C05-QUERY (a query against the model), C05-NORAISE (a call the
documentation says fails returned normally), C05-SUT-EXCEPTION (runner).  Fingerprints are
`<class>@<fault kind>:<method that last created/edited the circuit>`.  A violation whose
fingerprint is listed in known_findings.json is recorded (class suffix `~known`), the circuit
concerned is rebuilt / the real layout adopted, and the history continues; the first such
violation is raised at the end of the run so that the runner counts it as a known finding.

What is deliberately *not* asserted (the property does not state it): where operations that do
not fit into the range of insert_into_range end up; how far concat_ragged slides the second
circuit (only: both keep their moment structure, qubit-sharing operations keep their order);
circuit-level tags of results other than with_tags (transform_qubits drops them today);
"before everything after the insertion point" for several items inserted mid-circuit with
EARLIEST (the statement's exemption, read in the weakest way); the dict returned by
insert_at_frontier.
"""
from __future__ import annotations

import copy as _copy
import os
from typing import Any, Dict, List, Optional, Sequence, Tuple

from simkit.core import Check, Ctx, HarnessError, Violation
from engines import circuit_model as M
from engines.circuit_model import AOp, MMoment, ModelRaises

P = "C05"
NQ = 4
KEYS = ("a", "b")
SYMS = ("t", "s")

cirq = None   # set in setup()
np = None
sympy = None


class InjectedFault(Exception):
    """Raised by a user iterator inside a call (fault kind iter-raises)."""


def raising_iter(items: Sequence, k: int):
    for i, it in enumerate(items):
        if i >= k:
            break
        yield it
    raise InjectedFault(f"iterator fails after {k} item(s)")


# op kinds, simplest first
K_X, K_CZ, K_M1, K_CC, K_PAR, K_TAG, K_M2, K_CNOT, K_CM, K_CO, K_CCZ, K_GP, K_GPC = range(13)
KIND_WEIGHTS = [12, 6, 8, 8, 4, 4, 4, 4, 4, 4, 2, 1, 2]
KIND_NAMES = ["X", "CZ", "M", "CC", "PAR", "TAGGED", "M2", "CNOT", "CIRCUIT-OP-2Q", "CIRCUIT-OP", "CCZ", "GLOBAL-PHASE", "CONTROLLED-GLOBAL-PHASE"]

MUTATORS = ["append", "insert", "iadd", "insert_into_range", "insert_at_frontier", "batch_insert",
            "batch_insert_into", "batch_remove", "batch_replace", "clear", "setitem_int",
            "setitem_slice", "delitem", "imul"]
VALUERS = ["copy", "add", "radd", "mul", "pow", "zip", "concat_ragged", "transform_qubits",
           "with_tags", "slice", "freeze", "construct"]
CALLS = MUTATORS + VALUERS
# profile -> weights (same order as CALLS)
PROFILES = [
    # balanced
    [10, 10, 4, 3, 3, 4, 3, 3, 3, 4, 3, 2, 3, 2, 3, 2, 2, 2, 2, 2, 2, 2, 2, 2, 2, 2],
    # builder: mostly appends (keeps the placement cache alive), a few of everything else
    [30, 4, 8, 1, 1, 2, 2, 2, 2, 3, 2, 1, 1, 1, 2, 2, 1, 1, 1, 3, 1, 1, 3, 1, 1, 3],
    # editor: batch edits and item assignment
    [5, 8, 2, 5, 5, 8, 6, 6, 6, 6, 5, 4, 4, 2, 2, 1, 1, 1, 1, 1, 1, 1, 1, 1, 1, 1],
    # algebra: value-returning operations between a few edits
    [6, 6, 3, 1, 1, 2, 1, 2, 1, 2, 2, 1, 2, 2, 5, 5, 5, 4, 4, 5, 5, 4, 4, 4, 3, 3],
]

MUT_NAMES = {"append", "insert", "iadd", "iadd-circuit", "insert_into_range", "insert_at_frontier", "batch_insert",
             "batch_insert_into", "batch_remove", "batch_replace", "clear_operations_touching", "setitem_int",
             "setitem_slice", "delitem", "imul"}
ATOMIC = {"batch_remove", "batch_replace", "batch_insert_into", "batch_insert"}
# Oracles for behaviours of the unmodified HEAD that were reported to the coordinator and are
# neither repaired in /repo nor recorded yet.  While a name is listed here its oracle is off (or
# the workload does not generate the triggering input), so that ./check C05 stays green; remove
# the name to enforce it.  VERIF_C05_ENFORCE=name,name|all enforces them for one experiment.
PENDING = frozenset()      # every oracle below is enforced: the defects are repaired in /repo or recorded (DESIGN 8.2)
_ALL_NAMES = frozenset({
    "earliest-multi-spill",            # (recorded) several items inserted mid-circuit with EARLIEST land after ops that followed the point
    "moment-eq-qubitless-order",       # (fixed) Moment ==/hash depend on the order of operations that act on no qubits
    "moment-eq-symmetric-gate-order",  # (fixed) Moment(CZ(c,a)) != Moment(CZ(a,c)) although the operations are equal
    "batch-remove-equal-ops",          # (fixed) batch_remove/batch_replace act on every equal operation of the moment
    "batch-insert-negative-index",     # (fixed) batch_insert adds the running shift to raw negative indices
    "concat-ragged-key-order",         # (recorded) concat_ragged slides a controlled op in front of its measurement
    "prev-moment-past-end",            # (fixed) prev_moment_operating_on(end > len) searches too few moments
    "control-keys-intra-moment-order", # (recorded) cirq.control_keys(circuit) depends on the order inside a moment
    "factorize-drops-qubitless",       # (recorded) factorize() loses operations that act on no qubits
    "parameter-names-by-reference",    # (fixed) parameter_names(circuit) hands out the cached mutable set
    "transform-qubits-drops-tags",     # (fixed) Circuit.transform_qubits drops the circuit's tags
    "slice-qubits-one-shot-iterable",  # (fixed) circuit[:, generator] consumes the generator at the first moment
    "setitem-numpy-int-skips-type-check",  # (fixed) circuit[np.int64(i)] = op stores an Operation as a moment
})
_enf = os.environ.get("VERIF_C05_ENFORCE", "")
if _enf:
    PENDING = frozenset() if _enf == "all" else PENDING - frozenset(_enf.split(","))


def pending(name: str) -> bool:
    return name in PENDING


CACHE_FIELDS = ("_placement_cache", "_frozen", "_all_qubits", "_is_measurement", "_is_parameterized",
                "_parameter_names")


class Reg:
    """Real operation <-> abstract operation.  Every generated operation carries a unique tag
    'u<n>'; operations derived by the circuit itself (inverses lose their tags, transform_qubits
    keeps the tag on other qubits) are interned when the model predicts them."""

    def __init__(self) -> None:
        self.n = 0
        self.fam: Dict[int, List[Tuple[Any, AOp]]] = {}
        self.by_uid: Dict[str, Any] = {}
        self.val: Dict[Any, AOp] = {}
        self.Q = cirq.LineQubit.range(NQ)

    def make(self, kind: int, qs: Tuple[int, ...], key: str, sym: str) -> AOp:
        n = self.n
        self.n += 1
        Q = self.Q
        uid = str(n)
        if kind == K_X:
            g, a = cirq.X(Q[qs[0]]), AOp(uid, qs[:1])
        elif kind == K_CZ:
            g, a = cirq.CZ(Q[qs[0]], Q[qs[1]]), AOp(uid, qs[:2])
        elif kind == K_GP:
            # operations on no qubits: a global phase, and a classically controlled one (control key only)
            g, a = cirq.global_phase_operation(1j), AOp(uid, ())
        elif kind == K_GPC:
            g = cirq.global_phase_operation(-1).with_classical_controls(key)
            a = AOp(uid, (), ckeys=(key,), invertible=False)
        elif kind == K_CCZ:
            g, a = cirq.CCZ(Q[qs[0]], Q[qs[1]], Q[qs[2]]), AOp(uid, qs[:3])
        elif kind == K_CNOT:
            g, a = cirq.CNOT(Q[qs[0]], Q[qs[1]]), AOp(uid, qs[:2])
        elif kind == K_M1:
            g, a = cirq.measure(Q[qs[0]], key=key), AOp(uid, qs[:1], mkeys=(key,), invertible=False)
        elif kind == K_M2:
            g, a = cirq.measure(Q[qs[0]], Q[qs[1]], key=key), AOp(uid, qs[:2], mkeys=(key,), invertible=False)
        elif kind == K_CC:
            g = cirq.X(Q[qs[0]]).with_classical_controls(key)
            a = AOp(uid, qs[:1], ckeys=(key,), invertible=False)
        elif kind == K_CM:
            # (cirq refuses measure(...).with_classical_controls(...): "Cannot conditionally run
            # operations with measurements", so the second both-key-sets operation is a two-qubit
            # CircuitOperation: read qs[0] into `key`, flip qs[1] if the *other* key)
            other = KEYS[1 - KEYS.index(key)]
            g = cirq.CircuitOperation(cirq.FrozenCircuit(cirq.measure(Q[qs[0]], key=key),
                                                         cirq.X(Q[qs[1]]).with_classical_controls(other)))
            a = AOp(uid, qs[:2], mkeys=(key,), ckeys=(other,), invertible=False)
        elif kind == K_CO:
            # one operation wrapping "flip if <other>, then read into <key>": both key sets
            other = KEYS[1 - KEYS.index(key)]
            g = cirq.CircuitOperation(cirq.FrozenCircuit(cirq.X(Q[qs[0]]).with_classical_controls(other),
                                                         cirq.measure(Q[qs[0]], key=key)))
            a = AOp(uid, qs[:1], mkeys=(key,), ckeys=(other,), invertible=False)
        elif kind == K_PAR:
            g, a = (cirq.X ** sympy.Symbol(sym))(Q[qs[0]]), AOp(uid, qs[:1], params=(sym,))
        elif kind == K_TAG:
            g, a = cirq.Y(Q[qs[0]]).with_tags("extra"), AOp(uid, qs[:1])
        else:
            raise HarnessError(f"kind {kind}")
        real = g.with_tags("u" + uid)
        self.fam[n] = [(real, a)]
        self.by_uid[uid] = real
        return a

    def real(self, a: AOp):
        return self.by_uid[a.uid]

    def decode(self, op) -> AOp:
        n = None
        for t in op.tags:
            if isinstance(t, str) and len(t) > 1 and t[0] == "u" and t[1:].isdigit():
                n = int(t[1:])
        if n is not None and n in self.fam:
            for real, a in self.fam[n]:
                if op is real:
                    return a
            for real, a in self.fam[n]:
                if real.qubits == op.qubits and op == real:
                    return a
        else:
            try:
                a = self.val.get(op)
            except TypeError:
                a = None
            if a is not None:
                return a
        qs = tuple(getattr(q, "x", -1) for q in op.qubits)
        return AOp("?" + repr(op), qs)

    def transformed(self, a: AOp, qmap: Dict[int, int], fn) -> AOp:
        real = self.by_uid[a.uid]
        new_qs = tuple(qmap.get(q, q) for q in a.qubits)
        if new_qs == a.qubits:
            return a
        new_real = real.transform_qubits(fn)
        base = a.uid.split(">")[0]
        if base.isdigit() and int(base) in self.fam:
            uid = base + ">" + "".join(map(str, new_qs))
            for r, b in self.fam[int(base)]:
                if b.uid == uid or (b.uid == base and b.qubits == new_qs):
                    return b
            b = AOp(uid, new_qs, a.mkeys, a.ckeys, a.params, a.invertible)
            self.fam[int(base)].append((new_real, b))
            self.by_uid[uid] = new_real
            return b
        return self._intern(new_real, new_qs, a)

    def _intern(self, real, qs, like: AOp) -> AOp:
        b = self.val.get(real)
        if b is None:
            b = AOp("v%d" % len(self.val), qs, like.mkeys, like.ckeys, like.params, like.invertible)
            self.val[real] = b
            self.by_uid[b.uid] = real
        return b

    def inverse(self, a: AOp) -> Optional[AOp]:
        if not a.invertible:
            return None
        real = self.by_uid[a.uid]
        inv = cirq.inverse(real)
        if inv.tags:   # would keep its identity; not the case today, but do not guess
            inv = inv.untagged
        return self._intern(inv, a.qubits, a)


class Live:
    __slots__ = ("c", "m", "hist", "last", "sig", "answers")

    def __init__(self, c, m: M.Layout):
        self.c = c
        self.m = m
        self.hist = ""       # M = mutating call, A = append, I = mid-circuit insert, Q = workload query
        self.last = ("construct", "ok")
        self.sig = None
        self.answers: Dict[str, Any] = {}


def clone_with_caches(c):
    """A copy of the circuit object that keeps every cached field as it is (what the next
    caller of a query on `c` would see), without touching `c`.  Generic over __dict__: lists
    are copied, helper objects (the placement cache) get their dicts copied, immutable values
    (Moments, frozensets, the frozen view) are shared."""
    clone = object.__new__(type(c))
    d = {}
    for k, v in c.__dict__.items():
        if isinstance(v, list):
            v = list(v)
        elif hasattr(v, "__dict__") and not isinstance(v, (cirq.AbstractCircuit, cirq.Moment)):
            w = object.__new__(type(v))
            w.__dict__.update({kk: (dict(vv) if isinstance(vv, dict) else vv) for kk, vv in v.__dict__.items()})
            v = w
        d[k] = v
    clone.__dict__.update(d)
    return clone


class Run:
    """One history."""

    def __init__(self, check: "C05", tape, ctx: Ctx):
        self.check = check
        self.tape = tape
        self.ctx = ctx
        self.reg = Reg()
        self.Q = self.reg.Q
        self.pool: List[Live] = []
        self.frozen: List[Tuple[Any, List[List[str]]]] = []
        self.known_hit: Optional[Violation] = None
        self.touched: set = set()      # circuits whose queries are re-checked after this call
        self.mutated: set = set()      # circuits this call is allowed to change
        self.force_target: Optional[int] = None
        self.moment_ok: Dict[int, Tuple[Any, Any]] = {}
        self.calls: List[Any] = []
        self.step_no = 0
        self.cur = ("construct", "ok")
        self.faults_on: Dict[str, int] = {}
        self.n_mut = 0
        self.do_factor = False
        self.pending_fp: Optional[str] = None   # the call under way feeds an input named in PENDING (enforced)

    # ------------------------------------------------------------------ reporting
    def flag(self, cls: str, msg: str, fp: Optional[str] = None, who: Optional[int] = None) -> None:
        """Raise the violation, unless its fingerprint is a listed known finding: then remember
        the first one (raised at the end of the run) and let the caller repair and go on.
        The fingerprint names the call (and fault kind) that last created or edited the
        circuit concerned."""
        method, fault = self.cur if who is None else self.pool[who].last
        base = cls.split(":")[0]
        if fp is None and self.pending_fp is not None and who is None:
            fp = f"{base}:{self.pending_fp}"
        if fp is None:
            fp = f"{base}@{fault}:{method}"
        if fault == "iter-raises" and base == "C05-STALE":
            cls = cls + "@iter-raises"
        known = fp in self.check.known_fps
        if known:
            # a listed finding gets its own class name, so that minimising some *other* violation
            # of the same class (the runner shrinks to "same class") cannot slide into it
            cls = cls + "~known"
        v = Violation(cls, f"after call #{self.step_no} {method} [{fault}]: {msg}", fingerprint=fp)
        self.ctx.event("violation", cls, fp)
        if known:
            if self.known_hit is None:
                self.known_hit = v
            return
        raise v

    # ------------------------------------------------------------------ decoding
    def decode(self, circ) -> M.Layout:
        out = []
        dec = self.reg.decode
        for j, m in enumerate(circ.moments):
            ops = [dec(op) for op in m.operations]
            seen = set()
            for op in m.operations:
                for q in op.qubits:
                    if q in seen:
                        self.flag("C05-OVERLAP", f"moment {j} has two operations on {q}: {m.operations}")
                    seen.add(q)
            out.append(ops)
        return out

    def ref_moment(self, m):
        """The same operations written down in another order (reversed)."""
        ops = list(m.operations)
        if not pending("moment-eq-symmetric-gate-order"):
            # equal operations written with the qubits of a symmetric gate in the other order
            ops = [cirq.CZ(*reversed(o.qubits)).with_tags(*o.tags) if o.untagged.gate == cirq.CZ else o for o in ops]
        if pending("moment-eq-qubitless-order"):
            # reverse the operations that act on qubits, keep the relative order of those that do not
            return cirq.Moment([o for o in reversed(ops) if o.qubits] + [o for o in ops if not o.qubits])
        return cirq.Moment(list(reversed(ops)))

    def fresh_of(self, circ):
        ms = []
        for m in circ.moments:
            ent = self.moment_ok.get(id(m))
            if ent is None or ent[0] is not m:
                ent = (m, cirq.Moment(list(m.operations)), False, self.ref_moment(m))
                self.moment_ok[id(m)] = ent
            ms.append(ent[1])
        return cirq.Circuit(ms, tags=circ.tags)

    # ------------------------------------------------------------------ generation
    def gen_op(self, on: Optional[Tuple[int, ...]] = None) -> AOp:
        t = self.tape
        kind = t.weighted(KIND_WEIGHTS, "op-kind")
        if on is not None:
            if len(on) == 0:
                kind = kind if kind in (K_GP, K_GPC) else K_GP
            elif len(on) == 3:
                kind = K_CCZ
            elif len(on) == 1:
                kind = kind if kind in (K_X, K_M1, K_CC, K_PAR, K_TAG, K_CO) else K_X
            else:
                kind = kind if kind in (K_CZ, K_M2, K_CNOT, K_CM) else K_CZ
            qs = on
        else:
            a = t.draw(NQ, "qubit")
            if kind in (K_CZ, K_M2, K_CNOT, K_CM, K_CCZ):
                b = (a + 1 + t.draw(NQ - 1, "qubit2")) % NQ
                qs = (a, b)
                if kind == K_CCZ:
                    rest = [x for x in range(NQ) if x not in (a, b)]
                    qs = (a, b, rest[t.draw(len(rest), "qubit3")])
            elif kind in (K_GP, K_GPC):
                qs = ()
            else:
                qs = (a,)
        key = KEYS[t.draw(2, "key")] if kind in (K_M1, K_M2, K_CC, K_CM, K_CO, K_GPC) else "a"
        sym = SYMS[t.draw(2, "sym")] if kind == K_PAR else "t"
        return self.reg.make(kind, tuple(qs), key, sym)

    def gen_moment(self, maxops: int = 3) -> MMoment:
        n = self.tape.draw(maxops + 1, "moment-size")
        mm = MMoment()
        for _ in range(n):
            o = self.gen_op()
            if not M.qconf_moment(o, mm):
                mm.append(o)
                if not o.qubits and not pending("batch-remove-equal-ops") and self.tape.chance(1, 2, "same-op-twice"):
                    mm.append(o)   # two equal operations in one moment (only possible without qubits)
        return mm

    def gen_items(self, allow_moments: bool = True, lo: int = 0) -> List[Any]:
        n = lo + self.tape.weighted([2, 8, 5, 3, 2, 1, 1][lo:], "n-items")
        items: List[Any] = []
        total = 0
        for _ in range(n):
            if allow_moments and self.tape.chance(1, 7, "item-is-moment"):
                it = self.gen_moment()
                total += len(it)
            else:
                it = self.gen_op()
                total += 1
            if total > 8:
                break
            items.append(it)
        return items

    def real_item(self, it):
        if isinstance(it, MMoment):
            return cirq.Moment([self.reg.real(o) for o in it])
        return self.reg.real(it)

    def shape(self, reals: List[Any], raise_after: Optional[int] = None):
        if raise_after is not None:
            return raising_iter(reals, raise_after)
        sh = self.tape.draw(5, "tree-shape")
        if sh == 0:
            return reals[0] if len(reals) == 1 else list(reals)
        if sh == 1:
            return list(reals)
        if sh == 2:
            return tuple(reals)
        if sh == 3:
            h = len(reals) // 2
            return [reals[:h], [tuple(reals[h:])], []]
        return (x for x in reals)

    def desc_items(self, items) -> str:
        return " ".join(("M[" + ",".join(o.describe() for o in it) + "]") if isinstance(it, MMoment)
                        else it.describe() for it in items)

    def want_fault(self, kind: str) -> bool:
        rate = self.faults_on.get(kind, 0)
        return rate > 0 and self.tape.chance(rate, 8, "fault?" + kind)

    def pick_target(self) -> int:
        if self.force_target is not None and self.force_target < len(self.pool):
            t = self.force_target
            self.force_target = None
            return t
        self.force_target = None
        return self.tape.draw(len(self.pool), "target")

    # ------------------------------------------------------------------ executing
    def attempt(self, fn, expect: Optional[Tuple[str, ...]] = None):
        try:
            return "ok", fn()
        except InjectedFault:
            self.ctx.fault("iter-raises")
            return "injected", None
        except (ValueError, IndexError, TypeError, KeyError) as e:
            if expect is not None and type(e).__name__ in expect:
                return "raised", e
            if self.pending_fp is not None:
                self.flag("C05-SUT-EXCEPTION", f"{type(e).__name__}: {e}")
                return "raised", e
            raise

    def begin(self, name: str, fault: str, t: Optional[int], *desc) -> None:
        self.cur = (name, fault)
        self.ctx.decide(self.step_no, name, t, fault, *desc)
        if t is not None:
            self.touched.add(t)
            if name in MUT_NAMES:
                self.mutated.add(t)
                self.pool[t].last = self.cur

    def after_failure(self, t: int, atomic: bool, call_ops: Sequence[AOp], removal: bool = False) -> None:
        """The call raised.  Documented all-or-nothing methods: unchanged.  Others: some
        well-formed circuit, nothing pre-existing lost, nothing foreign added."""
        lv = self.pool[t]
        N = self.decode(lv.c)
        if atomic:
            if not M.same_layout(N, lv.m):
                self.flag("C05-ATOMIC", f"documented all-or-nothing edit failed but changed the circuit: "
                                        f"{M.show(lv.m)} -> {M.show(N)}")
                lv.m = N
            return
        before, after = M.uids_of(lv.m), M.uids_of(N)
        lost = _minus(before, after)
        extra = _minus(after, before + ([] if removal else [o.uid for o in call_ops]))
        if lost and not removal:
            self.flag("C05-LOST", f"the failed edit lost pre-existing operations {lost}: {M.show(lv.m)} -> {M.show(N)}")
        if extra:
            self.flag("C05-DUP", f"the failed edit left operations {extra} that are neither pre-existing nor "
                                 f"arguments of the call: {M.show(lv.m)} -> {M.show(N)}")
        lv.m = N

    def settle_exact(self, t: int, exp: M.Layout, cls_default: str = "C05-PLACE") -> None:
        lv = self.pool[t]
        N = self.decode(lv.c)
        if not M.same_layout(N, exp):
            self.mismatch(exp, N, cls_default)
            lv.m = N
        else:
            lv.m = exp

    def mismatch(self, exp: M.Layout, N: M.Layout, cls_default: str = "C05-PLACE", fp: Optional[str] = None) -> None:
        pr = M.conservation(M.uids_of(exp), M.uids_of(N))
        if pr is not None:
            self.flag(pr[0], f"{pr[1]}: expected {M.show(exp)}, circuit is {M.show(N)}", fp)
            return
        pe, pn = M.positions(exp), M.positions(N)
        ops = {o.uid: o for m in exp for o in m}
        us = sorted(u for u in pe if len(pe[u]) == 1 and len(pn.get(u, ())) == 1)
        for i, a in enumerate(us):
            for b in us[i + 1:]:
                if M.conf(ops[a], ops[b]):
                    de = pe[a][0] - pe[b][0]
                    dn = pn[a][0] - pn[b][0]
                    if (de < 0) != (dn < 0) or (de == 0) != (dn == 0):
                        self.flag("C05-ORDER", f"conflicting {ops[a].describe()} and {ops[b].describe()} changed "
                                               f"relative order: expected {M.show(exp)}, circuit is {M.show(N)}", fp)
                        return
        self.flag(cls_default, f"expected {M.show(exp)}, circuit is {M.show(N)}", fp)

    def problems(self, probs: List[Tuple[str, str]]) -> None:
        for cls, msg in probs[:1]:
            self.flag(cls, msg)

    def place_result(self, circ, layout: M.Layout, operands: Sequence[int], name: str) -> int:
        """Every result joins the pool (replacing a slot that is not an operand when full)."""
        lv = Live(circ, layout)
        lv.last = self.cur
        free = [i for i in range(len(self.pool)) if i not in operands]
        if len(self.pool) < 3 and (not free or self.tape.chance(2, 3, "result-new-slot")):
            self.pool.append(lv)
            i = len(self.pool) - 1
        else:
            i = free[self.tape.draw(len(free), "result-slot")]
            self.pool[i] = lv
        self.touched.add(i)
        self.mutated.add(i)
        if self.tape.chance(1, 2, "mutate-result-next"):
            self.force_target = i
        return i

    # ------------------------------------------------------------------ oracle
    def check_moment(self, m, fm) -> Optional[str]:
        Q = self.Q
        if m.qubits != fm.qubits:
            return "moment.qubits"
        for q in Q:
            if m.operates_on([q]) != fm.operates_on([q]) or m.operates_on_single_qubit(q) != fm.operates_on_single_qubit(q):
                return "moment.operates_on"
            if m.operation_at(q) != fm.operation_at(q):
                return "moment.operation_at"
        if cirq.measurement_key_objs(m) != cirq.measurement_key_objs(fm):
            return "moment.measurement_key_objs"
        if cirq.control_keys(m) != cirq.control_keys(fm):
            return "moment.control_keys"
        if m._measurement_key_objs_() != fm._measurement_key_objs_() or m._control_keys_() != fm._control_keys_():
            return "moment.key_sets"
        if cirq.measurement_key_names(m) != cirq.measurement_key_names(fm):
            return "moment.measurement_key_names"
        if cirq.is_parameterized(m) != cirq.is_parameterized(fm) or cirq.parameter_names(m) != cirq.parameter_names(fm):
            return "moment.parameters"
        if not (m == fm) or (m != fm) or hash(m) != hash(fm):
            return "moment.eq"
        if len(m) != len(fm) or bool(m) != bool(fm):
            return "moment.len"
        return None

    def battery(self, c, s: int) -> List[Tuple[str, Any]]:
        Q = self.Q
        out: List[Tuple[str, Any]] = []

        def q(name, fn):
            try:
                v = fn()
            except Exception as e:  # noqa: BLE001 - compared between the two circuits
                v = ("raised", type(e).__name__)
            out.append((name, v))

        n = len(c.moments)
        fa = {Q[i]: (s + i) % (n + 1) for i in range(NQ - 1)}
        fb = {Q[i]: min(n, (s + i) % (n + 1) + 2) for i in range(1, NQ)}
        q("len", lambda: (len(c), bool(c)))
        q("all_qubits", c.all_qubits)
        q("all_operations", lambda: list(c.all_operations()))
        q("all_measurement_key_objs", c.all_measurement_key_objs)
        q("all_measurement_key_names", c.all_measurement_key_names)
        q("measurement_key_protocols", lambda: (cirq.measurement_key_objs(c), cirq.measurement_key_names(c)))
        q("control_keys", lambda: cirq.control_keys(c))
        q("is_parameterized", lambda: cirq.is_parameterized(c))
        q("parameter_names", lambda: cirq.parameter_names(c))
        q("has_measurements", c.has_measurements)
        q("is_measurement", lambda: cirq.is_measurement(c))
        q("are_all_measurements_terminal", c.are_all_measurements_terminal)
        q("are_any_measurements_terminal", c.are_any_measurements_terminal)
        q("qid_shape", c.qid_shape)
        q("get_independent_qubit_sets", c.get_independent_qubit_sets)
        q("next_moment_operating_on", lambda: [c.next_moment_operating_on([qq], s) for qq in Q]
          + [c.next_moment_operating_on(Q[:2], 0, max_distance=s), c.next_moment_operating_on(Q[2:], s)])
        q("prev_moment_operating_on", lambda: [c.prev_moment_operating_on([qq], s) for qq in Q]
          + [c.prev_moment_operating_on(Q[1:3]), c.prev_moment_operating_on(Q[:1], None, max_distance=s)])
        q("next_moments_operating_on", lambda: c.next_moments_operating_on(Q, s))
        q("reachable_frontier_from", lambda: c.reachable_frontier_from(dict(fa)))
        q("findall_operations_between", lambda: c.findall_operations_between(dict(fa), dict(fb)))
        q("findall_operations_until_blocked", lambda: c.findall_operations_until_blocked(dict(fa)))
        q("operation_at", lambda: [c.operation_at(qq, i) for i in range(n) for qq in Q])
        q("getitem", lambda: [c[i] for i in range(n)] + ([c[-1], c[0, Q[0]] if c[0].operates_on([Q[0]]) else None] if n else []))
        q("earliest_available_moment", lambda: [c.earliest_available_moment(op) for op in self.check.probe_ops])
        return out

    def coherence(self, i: int, s: int) -> bool:
        """Cache coherence of every query against a freshly rebuilt equal circuit.  Returns
        False if a known finding was hit (caller repairs)."""
        lv = self.pool[i]
        c = lv.c
        # per-moment indexes (each Moment object is immutable: checked once)
        for j, m in enumerate(c.moments):
            ent = self.moment_ok.get(id(m))
            if ent is None or ent[0] is not m:
                ent = (m, cirq.Moment(list(m.operations)), False, self.ref_moment(m))
                self.moment_ok[id(m)] = ent
            if not ent[2]:
                bad = self.check_moment(m, ent[1])
                if bad is not None:
                    self.flag(f"C05-STALE:{bad}", f"circuit {i} moment {j} ({m!r}) answers differently from a "
                                                  f"Moment rebuilt from its operations", who=i)
                    return False
                rm = ent[3]
                if not (m == rm) or not (rm == m) or hash(m) != hash(rm) or len({m, rm}) != 1:
                    fp = None
                    if sum(1 for o in m.operations if not o.qubits) >= 2 and \
                            cirq.Moment([o for o in m.operations if o.qubits]) == cirq.Moment([o for o in rm.operations if o.qubits]):
                        fp = "C05-HASH:moment-eq-qubitless-order"
                    elif any(o.untagged.gate == cirq.CZ for o in m.operations) and m == cirq.Moment(list(reversed(m.operations))):
                        fp = "C05-HASH:moment-eq-symmetric-gate-order"
                    self.flag("C05-HASH", f"circuit {i} moment {j}: {m!r} and the Moment holding the same operations "
                                          f"in reverse order: == is {m == rm}, equal hashes is {hash(m) == hash(rm)}",
                              fp, who=i)
                    return False
                self.moment_ok[id(m)] = (m, ent[1], True, rm)
        fresh = self.fresh_of(c)
        clone = clone_with_caches(c)
        alive = tuple(getattr(c, f, None) is not None for f in CACHE_FIELDS)
        n = len(c.moments)
        self.ctx.state((min(n, 12) if n < 6 else 6 + min(n, 18) // 3, alive))
        if alive[0]:
            self.ctx.probe("placement-cache-alive-at-check")
        a = self.battery(clone, s)
        b = self.battery(fresh, s)
        lv.answers = dict(b)
        for (name, va), (_, vb) in zip(a, b):
            if not _same(va, vb):
                self.flag(f"C05-STALE:{name}", f"circuit {i}: {name} answers {_short(va)} but a freshly rebuilt "
                                               f"equal circuit answers {_short(vb)}; circuit is {M.show(lv.m)}", who=i)
                return False
        # equality and the frozen view
        try:
            eq = (clone == fresh, fresh == clone, clone != fresh)
        except Exception as e:  # noqa: BLE001
            eq = ("raised", type(e).__name__)
        if eq != (True, True, False):
            self.flag("C05-STALE:eq", f"circuit {i} does not compare equal to its rebuilt copy: {eq}", who=i)
            return False
        fz, ff = clone.freeze(), fresh.freeze()
        if not (fz == ff) or hash(fz) != hash(ff) or list(fz.moments) != list(ff.moments) or fz.tags != ff.tags:
            self.flag("C05-STALE:freeze", f"circuit {i}: freeze() gives {_short(fz)}, rebuilt copy {_short(ff)}", who=i)
            return False
        # ... and as an equal circuit written down differently would: same operations, other order
        # inside each moment, built through the public constructor.  Equality and hashing.
        ref = cirq.Circuit([self.moment_ok[id(m)][3] for m in c.moments], tags=c.tags)
        rz = ref.freeze()
        facts = (clone == ref, ref == clone, fz == rz, rz == fz, hash(fz) == hash(rz), len({fz, rz}) == 1,
                 fz in {rz: 0})
        if facts != (True,) * 7:
            self.flag("C05-HASH", f"circuit {i} ({M.show(lv.m)}) against an equal circuit whose moments list the "
                                  f"operations in reverse order: (c==ref, ref==c, frozen==, frozen== reversed, equal "
                                  f"hashes, one element in a set, dict lookup) = {facts}", who=i)
            return False
        if (not pending("control-keys-intra-moment-order") and self.tape.chance(1, 8, "judge-control-keys-order?")
                and cirq.control_keys(clone) != cirq.control_keys(ref)):
            self.flag("C05-QUERY", f"circuit {i} ({M.show(lv.m)}): cirq.control_keys() = {_short(cirq.control_keys(clone))} "
                                   f"but {_short(cirq.control_keys(ref))} for the equal circuit whose moments list the "
                                   f"operations in reverse order", "C05-QUERY:control-keys-intra-moment-order", who=i)
            return False
        # next / previous moment, against the model
        Lm = lv.m
        e = min(s, n)
        for qi in range(NQ):
            occ = [j for j, mm in enumerate(Lm) if any(qi in o.qset for o in mm)]
            want = (max([j for j in occ if j < e], default=None), min([j for j in occ if j >= e], default=None))
            got = (clone.prev_moment_operating_on([self.Q[qi]], e), clone.next_moment_operating_on([self.Q[qi]], e))
            if got != want:
                self.flag("C05-QUERY", f"circuit {i} ({M.show(Lm)}): (prev, next)_moment_operating_on(q{qi}, {e}) = {got}, "
                                       f"the operations on q{qi} are in moments {occ}", who=i)
                return False
            # a bounded window, also one that starts before the circuit does: [start, start + max_distance)
            for st0 in (-2, -1, e):
                for md in (1, 3):
                    got2 = clone.next_moment_operating_on([self.Q[qi]], st0, max_distance=md)
                    want2 = min([j for j in occ if st0 <= j < st0 + md], default=None)
                    if got2 != want2:
                        self.flag("C05-QUERY", f"circuit {i} ({M.show(Lm)}): next_moment_operating_on(q{qi}, {st0}, "
                                               f"max_distance={md}) = {got2}, the operations on q{qi} are in moments {occ}",
                                  who=i)
                        return False
            if not pending("prev-moment-past-end"):
                far = n + 1 + (s % 2)
                got1 = clone.prev_moment_operating_on([self.Q[qi]], far)
                if got1 != max(occ, default=None):
                    self.flag("C05-QUERY", f"circuit {i} ({M.show(Lm)}): prev_moment_operating_on(q{qi}, {far}) = {got1} "
                                           f"with {n} moments; the operations on q{qi} are in moments {occ}",
                              "C05-QUERY:prev-moment-past-end", who=i)
                    return False
        if self.do_factor:
            if not self.factor_oracle(i, clone):
                return False
        for name, fn in (("frozen.all_qubits", lambda z: z.all_qubits()),
                         ("frozen.all_operations", lambda z: list(z.all_operations())),
                         ("frozen.keys", lambda z: (z.all_measurement_key_objs(), cirq.control_keys(z))),
                         ("frozen.flags", lambda z: (z.has_measurements(), cirq.is_parameterized(z),
                                                     z.are_all_measurements_terminal()))):
            if fn(fz) != fn(ff):
                self.flag(f"C05-STALE:{name}", f"circuit {i}: {name} of the frozen view differs from the rebuilt copy's", who=i)
                return False
        # unitary, when it exists and is small
        ans = lv.answers
        n_ops = len(ans["all_operations"])
        if n_ops <= 14 and not ans["has_measurements"] and not ans["is_parameterized"] and not ans["control_keys"]:
            ua = clone.unitary(qubit_order=self.Q)
            ub = fresh.unitary(qubit_order=self.Q)
            if ua.shape != ub.shape or not np.allclose(ua, ub, atol=1e-9):
                self.flag("C05-STALE:unitary", f"circuit {i}: unitary() differs from the rebuilt copy's", who=i)
                return False
        # a subsequent append lands where it lands on the rebuilt copy.  With a live placement
        # cache every probe operation is tried on its own copy (one stale index must not be
        # hidden by an earlier probe); without one, one pass over all of them.
        probes = self.check.probe_items
        groups = [[p] for p in probes] if (alive[0] or not hasattr(c, CACHE_FIELDS[0])) else [probes]
        for g in groups:
            outs = []
            shown = []
            for circ in (clone_with_caches(c), fresh.copy()):
                res = []
                for p in g:
                    try:
                        circ.append(p)
                        res.append(None)
                    except Exception as e:  # noqa: BLE001
                        res.append(type(e).__name__)
                outs.append((res, [sorted(map(id, m.operations)) for m in circ.moments]))   # same operation objects on both sides
                shown.append((res, circ))
            if outs[0] != outs[1]:
                self.flag("C05-PLACEMENT-CACHE",
                          f"circuit {i} ({M.show(lv.m)}; caches alive {dict(zip(CACHE_FIELDS, alive))}): appending "
                          f"{[str(p) for p in g]} gives {_short(shown[0])} but on a freshly rebuilt equal "
                          f"circuit {_short(shown[1])}", who=i)
                return False
        return True

    def factor_oracle(self, i: int, c) -> bool:
        """get_independent_qubit_sets() / factorize() against the model: the sets are the connected
        components of 'two qubits share an operation' over all qubits of the circuit; the factors
        partition the operations, act on pairwise disjoint qubits, keep the moment structure, and
        zip back to the circuit."""
        lv = self.pool[i]
        L = lv.m
        parent: Dict[int, int] = {}

        def find(x: int) -> int:
            while parent[x] != x:
                parent[x] = parent[parent[x]]
                x = parent[x]
            return x

        for m in L:
            for o in m:
                for q in o.qubits:
                    parent.setdefault(q, q)
                for q in o.qubits[1:]:
                    ra, rb = find(o.qubits[0]), find(q)
                    if ra != rb:
                        parent[max(ra, rb)] = min(ra, rb)
        comps: Dict[int, List[int]] = {}
        for q in sorted(parent):
            comps.setdefault(find(q), []).append(q)
        want = sorted(comps.values())
        got = sorted(sorted(q.x for q in s) for s in c.get_independent_qubit_sets())
        if got != want:
            self.flag("C05-FACTORIZE", f"circuit {i} ({M.show(L)}): get_independent_qubit_sets() = {got}, but the "
                                       f"qubits connected through operations are {want}", who=i)
            return False
        factors = list(c.factorize())
        lays = [self.decode(f) for f in factors]
        # (a recorded finding, DESIGN 8.2: judged in one factorize check out of eight, so that the runs it would
        # otherwise end keep exercising the other oracles)
        loose_q0 = pending("factorize-drops-qubitless") or not self.tape.chance(1, 8, "judge-qubitless-in-factors?")
        Lq = [[o for o in m if o.qubits] for m in L]
        if loose_q0:
            # (operations on no qubits belong to no independent set and are dropped today)
            lays = [[[o for o in m if o.qubits] for m in lay] for lay in lays]
            L = Lq
        fq = [sorted({q for m in lay for o in m for q in o.qubits}) for lay in lays]
        allu = sorted(u for lay in lays for u in M.uids_of(lay))
        problem = None
        if len(want) != 1 and sorted(fq) != want:
            problem = f"factors act on {fq}, independent sets are {want}"
        elif any(set(a) & set(b) for x, a in enumerate(fq) for b in fq[x + 1:]):
            problem = f"factors overlap on qubits: {fq}"
        elif factors and allu != M.uids_of(L):
            pr = M.conservation(M.uids_of(L), allu)
            problem = f"operations over all factors: {pr[1] if pr else 'differ'}"
        elif any(len(lay) != len(L) for lay in lays):
            problem = f"factor lengths {[len(lay) for lay in lays]} for a circuit of {len(L)} moments"
        elif factors:
            try:
                z = self.decode(cirq.Circuit.zip(*factors))
                if loose_q0:
                    z = [[o for o in m if o.qubits] for m in z]
                if not M.same_layout(z, L):
                    problem = f"zip of the factors is {M.show(z)}"
            except ValueError as e:
                problem = f"zip of the factors raises {e!s:.120}"
        if problem is not None:
            fp = None
            if not loose_q0 and factors and sorted(u for lay in lays for m in lay for o in m if o.qubits for u in [o.uid]) == M.uids_of(Lq):
                fp = "C05-FACTORIZE:factorize-drops-qubitless"
            self.flag("C05-FACTORIZE", f"circuit {i} ({M.show(L)}).factorize() -> {[M.show(x) for x in lays]}: {problem}",
                      fp, who=i)
            return False
        return True

    def repair(self, i: int) -> None:
        """After a *known* finding: continue the history on a rebuilt circuit object."""
        lv = self.pool[i]
        lv.c = cirq.Circuit([cirq.Moment(list(m.operations)) for m in lv.c.moments], tags=lv.c.tags)
        lv.m = self.decode(lv.c)
        self.ctx.event("repaired", i)

    def check_all(self, final: bool = False) -> None:
        s = self.tape.draw(6, "query-start")
        self.do_factor = self.tape.chance(1, 3, "factorize?")
        for i, lv in enumerate(self.pool):
            N = self.decode(lv.c)
            if not M.same_layout(N, lv.m):
                if i not in self.mutated:
                    self.flag("C05-ALIAS", f"circuit {i} is not what the call edits, but it changed: "
                                           f"{M.show(lv.m)} -> {M.show(N)}")
                else:
                    self.mismatch(lv.m, N)
                lv.m = N
            for m in N:
                for o in m:
                    if o.uid.startswith("?"):
                        self.flag("C05-DUP", f"circuit {i} contains an operation nobody inserted: {o.uid}")
            sig = _signature(lv.c)
            if i in self.touched or final or sig != lv.sig:
                if not self.coherence(i, s):
                    self.repair(i)
                lv.sig = _signature(lv.c)
        for fz, key in self.frozen:
            got = M.layout_key(self.decode(fz))
            if got != key:
                self.flag("C05-ALIAS", f"a FrozenCircuit changed after it was taken: {key} -> {got}")

    def workload_queries(self) -> None:
        """Queries issued on the live objects between edits -- this is what populates the
        lazily cached summaries a later edit has to invalidate."""
        t = self.tape
        if not t.chance(5, 8, "query?"):
            return
        i = t.draw(len(self.pool), "query-circuit")
        lv = self.pool[i]
        c = lv.c
        mask = 1 + t.draw(63, "query-mask")
        names = []
        got: Dict[str, Any] = {}
        if mask & 1:
            got["all_qubits"] = c.all_qubits()
            names.append("all_qubits")
        if mask & 2:
            fz = c.freeze()
            names.append("freeze")
            if lv.answers and list(fz.moments) != list(c.moments):
                self.flag("C05-STALE:freeze", f"circuit {i}: freeze() does not show the current moments", who=i)
        if mask & 4:
            got["has_measurements"] = c.has_measurements()
            names.append("has_measurements")
        if mask & 8:
            got["is_parameterized"] = cirq.is_parameterized(c)
            names.append("is_parameterized")
        if mask & 16:
            got["parameter_names"] = pn = cirq.parameter_names(c)
            names.append("parameter_names")
            if not pending("parameter-names-by-reference") and isinstance(pn, set):
                got["parameter_names"] = set(pn)
                pn.add("zzz")                  # the caller edits the set it was given
                if "zzz" in cirq.parameter_names(c):
                    pn.discard("zzz")
                    self.flag("C05-STALE:parameter_names", f"circuit {i}: editing the set returned by "
                              f"cirq.parameter_names(circuit) changes what the next call returns",
                              "C05-STALE:parameter-names-by-reference")
        if mask & 32:
            got["all_measurement_key_objs"] = c.all_measurement_key_objs()
            got["control_keys"] = cirq.control_keys(c)
            names.append("keys")
        self.ctx.decide(self.step_no, "query", i, "+".join(names))
        for k, v in got.items():
            if k in lv.answers and not _same(v, lv.answers[k]):
                self.flag(f"C05-STALE:{k}", f"circuit {i}: {k}() = {_short(v)}, rebuilt copy says {_short(lv.answers[k])}", who=i)
        if "AQA" in (lv.hist + "Q")[-3:] or lv.hist.endswith("A"):
            pass
        lv.hist += "Q"
        lv.sig = None

    # ------------------------------------------------------------------ mutating calls
    def note_mut(self, t: int, code: str) -> None:
        lv = self.pool[t]
        h = lv.hist
        if code == "A" and h.endswith("AQ"):
            self.ctx.probe("query-between-two-appends")
        if code == "A" and "I" in h:
            self.ctx.probe("append-after-mid-circuit-insert")
        if h and "Q" in h and h.rstrip("Q") and h[-1] == "Q":
            self.ctx.nontrivial = True
        lv.hist = (h + code)[-12:]
        self.n_mut += 1

    def do_insert(self, via: str) -> None:
        t = self.pick_target()
        lv = self.pool[t]
        L = lv.m
        n = len(L)
        tp = self.tape
        strategy = M.STRATEGIES[tp.weighted([8, 2, 3, 2, 3], "strategy")] if via != "iadd" else M.EARLIEST
        index = n if via != "insert" else tp.between(-(n + 2), n + 2, "index")
        fault = "ok"
        mid = False
        if via == "insert" and strategy == M.INLINE and n > 0 and self.want_fault("conflict-mid-batch"):
            # an INLINE group whose j-th element collides with the moment before the insert location
            fault = "conflict-mid-batch"
            k = M.clamp_index(n, index)
            if k == 0:
                index, k = n, n
            tgt = L[k - 1]
            items = [self.gen_op() for _ in range(tp.between(2, 4, "n-items"))]
            j = tp.draw(len(items), "collide-at")
            if tgt:
                victim = tgt[tp.draw(len(tgt), "victim")]
                items[j] = self.gen_op(on=victim.qubits)
            mid = True
        else:
            items = self.gen_items()
        k_raise = None
        if not mid and self.want_fault("iter-raises"):
            fault = "iter-raises"
            k_raise = tp.draw(len(items) + 1, "raise-after")
        reals = [self.real_item(it) for it in items]
        tree = self.shape(reals, k_raise)
        strat = getattr(cirq.InsertStrategy, strategy)
        self.begin(via, fault, t, index if via == "insert" else None, strategy, self.desc_items(items),
                   k_raise)
        k = M.clamp_index(n, index)
        if via == "insert" and index < -n:
            self.ctx.probe("negative-index-below-minus-len")
        c = lv.c

        def fn():
            if via == "append":
                return c.append(tree, strat)
            if via == "insert":
                return c.insert(index, tree, strat)
            c2 = c
            c2 += tree
            if c2 is not c:
                self.flag("C05-ALIAS", "+= returned a different object")
            return None

        status, ret = self.attempt(fn)
        code = "A" if k == n and strategy == M.EARLIEST else ("I" if k < n else "M")
        if status == "injected":
            self.after_failure(t, False, M.flatten_items(items))
            self.note_mut(t, "M")
            return
        if fault == "iter-raises":
            raise HarnessError("iter-raises fault was not delivered by " + via)
        if mid:
            self.ctx.fault("conflict-mid-batch")
            self.ctx.probe("failed-inline-batch")
        self.settle_insert(t, index, items, strategy, ret if via == "insert" else None)
        self.note_mut(t, code)

    def settle_insert(self, t: int, index: int, items: List[Any], strategy: str, ret: Optional[int],
                      circ=None, base: Optional[M.Layout] = None) -> M.Layout:
        """Compare the circuit after an insert of `items` at `index` into layout `base`."""
        lv = self.pool[t] if circ is None else None
        L = base if base is not None else lv.m
        c = circ if circ is not None else lv.c
        N = self.decode(c)
        n = len(L)
        k = M.clamp_index(n, index)
        if len(items) == 1:
            it = items[0]
            if isinstance(it, MMoment):
                exp, p = M.insert_moment(L, index, it)
                rlo = rhi = p + 1
            else:
                opts = M.insert_single_options(L, index, it, strategy)
                exp, p, _ = opts[0]
                for lay, pp, _ in opts:
                    if M.same_layout(N, lay):
                        exp, p = lay, pp
                        break
                if strategy in (M.EARLIEST, M.INLINE) and k > 0 and not M.qconf_moment(it, L[k - 1]) \
                        and M.conf_moment(it, L[k - 1]):
                    self.ctx.probe("key-conflict-forces-new-moment")
                rlo, rhi = p + 1, max(k, p + 1)
            if not M.same_layout(N, exp):
                self.mismatch(exp, N)
            elif ret is not None and not (rlo <= ret <= rhi):
                self.flag("C05-RETURN", f"insert of {self.desc_items(items)} at {k} ({strategy}) into {M.show(L)} "
                                        f"put it in moment {p} and returned {ret}; 'just after the inserted "
                                        f"operations' is {rlo}..{rhi}")
        else:
            ins = M.flatten_items(items)
            pr = M.conservation(M.uids_of(L), M.uids_of(N), [o.uid for o in ins])
            if pr is not None:
                self.flag(pr[0], f"{pr[1]}: insert of {self.desc_items(items)} into {M.show(L)} gave {M.show(N)}")
            else:
                probs = M.check_insert_multi(L, N, index, items, strategy, ret)
                fp = None
                if not probs and not pending("earliest-multi-spill"):
                    probs = M.check_insert_multi(L, N, index, items, strategy, ret, exempt=False)
                    fp = "C05-ORDER:earliest-multi-spill"
                if probs:
                    cls, msg = probs[0]
                    self.flag(cls, f"{strategy} insert of [{self.desc_items(items)}] at {k} into {M.show(L)} gave "
                                   f"{M.show(N)}: {msg}", fp)
        if lv is not None:
            lv.m = N
        return N

    def call_append(self) -> None:
        self.do_insert("append")

    def call_insert(self) -> None:
        self.do_insert("insert")

    def call_iadd(self) -> None:
        if len(self.pool) > 0 and self.tape.chance(1, 3, "iadd-circuit"):
            t = self.pick_target()
            j = self.tape.draw(len(self.pool), "other")
            lv, other = self.pool[t], self.pool[j]
            self.begin("iadd-circuit", "ok", t, j)
            self.touched.add(j)
            exp = M.concat(lv.m, other.m)
            c = lv.c
            c += other.c
            if c is not lv.c:
                self.flag("C05-ALIAS", "+= returned a different object")
            self.settle_exact(t, exp)
            self.note_mut(t, "M")
            return
        self.do_insert("iadd")

    def call_insert_into_range(self) -> None:
        t = self.pick_target()
        lv = self.pool[t]
        L, n, tp = lv.m, len(lv.m), self.tape
        ops = [self.gen_op() for _ in range(tp.between(1, 4, "n-ops"))]
        start = tp.draw(n + 1, "start")
        end = start + tp.draw(n - start + 1, "end")
        fault, k_raise, expect = "ok", None, None
        if self.want_fault("bad-arg"):
            fault = "bad-arg"
            start, end = [(end + 1, start), (start, n + 1 + tp.draw(2, "over")), (-1 - tp.draw(2, "under"), end)][tp.draw(3, "bad-kind")]
            expect = ("IndexError",)
        elif self.want_fault("iter-raises"):
            fault, k_raise = "iter-raises", tp.draw(len(ops) + 1, "raise-after")
        tree = self.shape([self.reg.real(o) for o in ops], k_raise)
        self.begin("insert_into_range", fault, t, start, end, self.desc_items(ops), k_raise)
        status, ret = self.attempt(lambda: lv.c.insert_into_range(tree, start, end), expect)
        if status != "ok":
            if status == "raised":
                self.ctx.fault("bad-arg")
            self.after_failure(t, False, ops)
            self.note_mut(t, "M")
            return
        if fault != "ok":
            raise HarnessError(f"{fault} not delivered by insert_into_range({start},{end}) on length {n}")
        N = self.decode(lv.c)
        pr = M.conservation(M.uids_of(L), M.uids_of(N), [o.uid for o in ops])
        if pr is not None:
            self.flag(pr[0], f"{pr[1]}: insert_into_range gave {M.show(N)} from {M.show(L)}")
        else:
            probs = M.check_insert_into_range(L, N, ops, start, end, ret)
            if probs:
                self.flag(probs[0][0], f"insert_into_range([{self.desc_items(ops)}], {start}, {end}) on {M.show(L)} "
                                       f"gave {M.show(N)}: {probs[0][1]}")
        lv.m = N
        self.note_mut(t, "I")

    def call_insert_at_frontier(self) -> None:
        t = self.pick_target()
        lv = self.pool[t]
        L, n, tp = lv.m, len(lv.m), self.tape
        ops = [self.gen_op() for _ in range(tp.between(1, 4, "n-ops"))]
        start = tp.draw(n + 1, "start")
        fault, k_raise, expect = "ok", None, None
        frontier = None
        if tp.chance(1, 2, "frontier-dict"):
            frontier = {self.Q[i]: tp.draw(start + 1, "frontier") for i in range(NQ)}
        with_q = [o for o in ops if o.qubits]
        if with_q and self.want_fault("bad-arg"):
            fault = "bad-arg"
            frontier = {self.Q[i]: 0 for i in range(NQ)}
            frontier[self.Q[with_q[0].qubits[0]]] = start + 1 + tp.draw(2, "frontier-over")
            expect = ("ValueError",)
        elif self.want_fault("iter-raises"):
            fault, k_raise = "iter-raises", tp.draw(len(ops) + 1, "raise-after")
        tree = self.shape([self.reg.real(o) for o in ops], k_raise)
        self.begin("insert_at_frontier", fault, t, start, self.desc_items(ops), k_raise,
                   None if frontier is None else [frontier[q] for q in self.Q])
        status, ret = self.attempt(lambda: lv.c.insert_at_frontier(tree, start, frontier), expect)
        if status != "ok":
            if status == "raised":
                self.ctx.fault("bad-arg")
            self.after_failure(t, False, ops)
            self.note_mut(t, "M")
            return
        if fault != "ok":
            raise HarnessError(f"{fault} not delivered by insert_at_frontier")
        N = self.decode(lv.c)
        pr = M.conservation(M.uids_of(L), M.uids_of(N), [o.uid for o in ops])
        if pr is not None:
            self.flag(pr[0], f"{pr[1]}: insert_at_frontier gave {M.show(N)} from {M.show(L)}")
        else:
            probs = M.check_insert_at_frontier(L, N, ops, start)
            if probs:
                self.flag(probs[0][0], f"insert_at_frontier([{self.desc_items(ops)}], {start}) on {M.show(L)} gave "
                                       f"{M.show(N)}: {probs[0][1]}")
        lv.m = N
        self.note_mut(t, "I")

    def run_atomic(self, t: int, name: str, fault: str, fn, model_fn, call_ops: Sequence[AOp], code: str = "M") -> None:
        """A documented all-or-nothing edit: `model_fn()` gives the expected layout or raises
        ModelRaises; the real call must do the same and leave the circuit unchanged if it fails."""
        lv = self.pool[t]
        expect = None
        exp = None
        try:
            exp = model_fn()
        except ModelRaises as mr:
            expect = mr.kinds
            if fault == "ok":
                fault = "bad-arg"
                self.cur = (name, fault)
                lv.last = self.cur
        status, _ = self.attempt(fn, expect)
        if status == "injected":
            self.after_failure(t, name in ATOMIC, call_ops)
        elif status == "raised":
            self.ctx.fault("conflict-mid-batch" if fault == "conflict-mid-batch" else "bad-arg")
            self.after_failure(t, name in ATOMIC, call_ops)
        else:
            if fault == "iter-raises":
                raise HarnessError(f"iter-raises not delivered by {name}")
            if expect is not None:
                try:
                    N = self.decode(lv.c)
                except AttributeError:       # something that is not a Moment sits in the moment list
                    self.flag("C05-OVERLAP", f"{name}: the call was accepted and the circuit now holds "
                                             f"{[type(x).__name__ for x in lv.c.moments]} as moments")
                    N = lv.m
                self.flag("C05-NORAISE", f"{name}: the documentation says this call fails ({expect}) but it "
                                         f"returned; circuit {M.show(lv.m)} -> {M.show(N)}")
                lv.m = N
            else:
                self.settle_exact(t, exp)
        self.note_mut(t, code)

    def call_batch_insert(self) -> None:
        t = self.pick_target()
        lv = self.pool[t]
        L, n, tp = lv.m, len(lv.m), self.tape
        m = tp.between(1, 3, "n-entries")
        loose = tp.chance(1, 4, "loose-form")
        entries: List[Tuple[int, List[Any]]] = []
        used = set()
        for _ in range(m):
            i = tp.draw(n + 2, "index")
            if not loose and not pending("batch-insert-negative-index") and tp.chance(1, 3, "negative-index"):
                i = i - (n + 2)
            if loose:
                items = self.gen_items(allow_moments=True, lo=1)
            else:
                if M.clamp_index(n, i) in used:
                    continue
                items = [self.gen_moment()] if tp.chance(1, 7, "entry-is-moment") else [self.gen_op()]
            used.add(M.clamp_index(n, i))
            entries.append((i, items))
        fault, k_raise = "ok", None
        if self.want_fault("iter-raises"):
            fault, k_raise = "iter-raises", tp.draw(len(entries) + 1, "raise-after")
        real_entries = []
        for i, items in entries:
            reals = [self.real_item(it) for it in items]
            real_entries.append((i, reals[0] if (len(reals) == 1 and not loose) else self.shape(reals)))
        arg = raising_iter(real_entries, k_raise) if k_raise is not None else (
            real_entries if tp.chance(1, 2, "as-list") else iter(real_entries))
        all_ops = [o for _, items in entries for o in M.flatten_items(items)]
        self.begin("batch_insert", fault, t, [(i, self.desc_items(items)) for i, items in entries], k_raise, loose)
        if any(i < 0 for i, _ in entries):
            self.pending_fp = "batch-insert-negative-index"
        status, _ = self.attempt(lambda: lv.c.batch_insert(arg))
        if status == "injected":
            self.after_failure(t, True, all_ops)
            self.note_mut(t, "M")
            return
        if fault != "ok":
            raise HarnessError("iter-raises not delivered by batch_insert")
        N = self.decode(lv.c)
        pr = M.conservation(M.uids_of(L), M.uids_of(N), [o.uid for o in all_ops])
        if pr is not None:
            self.flag(pr[0], f"{pr[1]}: batch_insert gave {M.show(N)} from {M.show(L)}")
        elif loose:
            probs = M.check_batch_insert_loose(L, N, entries)
            if probs:
                self.flag(probs[0][0], f"batch_insert({[(i, self.desc_items(it)) for i, it in entries]}) on "
                                       f"{M.show(L)} gave {M.show(N)}: {probs[0][1]}")
        else:
            flat = [(i, items[0]) for i, items in entries]
            opts = M.batch_insert_options(L, flat)
            if not any(M.same_layout(N, o) for o in opts):
                self.mismatch(opts[0], N)
        lv.m = N
        self.note_mut(t, "I")

    def call_batch_insert_into(self) -> None:
        t = self.pick_target()
        lv = self.pool[t]
        L, n, tp = lv.m, len(lv.m), self.tape
        fault = "ok"
        if n and self.want_fault("conflict-mid-batch"):
            fault = "conflict-mid-batch"
        elif self.want_fault("bad-arg") or n == 0:
            fault = "bad-arg"
        entries: List[Tuple[int, List[AOp]]] = []
        cur = M.copy_layout(L)
        m = tp.between(1, 3, "n-entries")
        for e in range(m):
            i = tp.draw(n, "moment") if n else 0
            ops: List[AOp] = []
            for _ in range(tp.between(1, 3, "n-ops")):
                o = self.gen_op()
                if not M.qconf_moment(o, cur[i] if n else []) :
                    ops.append(o)
                    if n:
                        cur[i].append(o)
            if ops:
                entries.append((i, ops))
        if fault == "conflict-mid-batch":
            occupied = [(i, o) for i, mm in enumerate(L) for o in mm]
            if occupied and entries:
                i, victim = occupied[tp.draw(len(occupied), "victim")]
                e = tp.draw(len(entries), "collide-entry")
                ops = list(entries[e][1])
                ops.insert(tp.draw(len(ops) + 1, "collide-at"), self.gen_op(on=victim.qubits))
                entries[e] = (i, ops)
            else:
                fault = "ok"
        if fault == "bad-arg":
            entries.append((n + tp.draw(2, "over"), [self.gen_op()]))
        if not entries:
            entries = [(0, [])] if n else []
        k_raise = None
        if fault == "ok" and self.want_fault("iter-raises"):
            fault, k_raise = "iter-raises", tp.draw(len(entries) + 1, "raise-after")
        real_entries = [(i, self.shape([self.reg.real(o) for o in ops])) for i, ops in entries]
        arg = raising_iter(real_entries, k_raise) if k_raise is not None else real_entries
        self.begin("batch_insert_into", fault, t, [(i, self.desc_items(ops)) for i, ops in entries], k_raise)
        self.run_atomic(t, "batch_insert_into", fault, lambda: lv.c.batch_insert_into(arg),
                        lambda: M.batch_insert_into(L, entries), [o for _, ops in entries for o in ops])

    def pick_existing(self, L: M.Layout, k: int) -> List[Tuple[int, AOp]]:
        occ = [(i, o) for i, mm in enumerate(L) for o in mm]
        if pending("batch-remove-equal-ops"):
            # (two equal operations in one moment arise from zip(c, c) of operations on no qubits)
            occ = [(i, o) for i, o in occ if sum(1 for x in L[i] if x.uid == o.uid) == 1]
        else:
            occ = [e for x, e in enumerate(occ) if e not in occ[:x]]
        out = []
        for _ in range(k):
            if not occ:
                break
            out.append(occ.pop(self.tape.draw(len(occ), "existing-op")))
        return out

    def call_batch_remove(self) -> None:
        t = self.pick_target()
        lv = self.pool[t]
        L, n, tp = lv.m, len(lv.m), self.tape
        rem = self.pick_existing(L, tp.between(1, 3, "n-removals"))
        fault = "ok"
        if self.want_fault("bad-arg") or not rem:
            fault = "bad-arg"
            kind = tp.draw(3, "bad-kind")
            at = tp.draw(len(rem) + 1, "bad-at")
            if kind == 0 or not rem:
                rem.insert(at, (tp.draw(n, "moment") if n else 0, self.gen_op()))        # absent operation
            elif kind == 1:
                rem.insert(at, (n + tp.draw(2, "over"), rem[0][1]))                        # moment that doesn't exist
            else:
                rem.insert(at, rem[tp.draw(len(rem), "twice")])                             # listed twice
        k_raise = None
        if fault == "ok" and self.want_fault("iter-raises"):
            fault, k_raise = "iter-raises", tp.draw(len(rem) + 1, "raise-after")
        real = [(i, self.reg.real(o)) for i, o in rem]
        arg = raising_iter(real, k_raise) if k_raise is not None else real
        self.begin("batch_remove", fault, t, [(i, o.uid) for i, o in rem], k_raise)
        if any(0 <= i < n and sum(1 for x in L[i] if x.uid == o.uid) > 1 for i, o in rem):
            self.pending_fp = "batch-remove-equal-ops"
        self.run_atomic(t, "batch_remove", fault, lambda: lv.c.batch_remove(arg),
                        lambda: M.batch_remove(L, rem), [])

    def call_batch_replace(self) -> None:
        t = self.pick_target()
        lv = self.pool[t]
        L, n, tp = lv.m, len(lv.m), self.tape
        picked = self.pick_existing(L, tp.between(1, 3, "n-replacements"))
        rep = []
        for i, o in picked:
            new = self.gen_op(on=o.qubits) if tp.chance(3, 4, "same-qubits") else self.gen_op()
            rep.append((i, o, new))
        fault = "ok"
        if self.want_fault("bad-arg") or not rep:
            fault = "bad-arg"
            at = tp.draw(len(rep) + 1, "bad-at")
            if tp.chance(1, 2, "bad-kind") or not rep:
                rep.insert(at, (tp.draw(n, "moment") if n else 0, self.gen_op(), self.gen_op()))
            else:
                rep.insert(at, (n + tp.draw(2, "over"), rep[0][1], self.gen_op()))
        k_raise = None
        if fault == "ok" and self.want_fault("iter-raises"):
            fault, k_raise = "iter-raises", tp.draw(len(rep) + 1, "raise-after")
        real = [(i, self.reg.real(o), self.reg.real(nw)) for i, o, nw in rep]
        arg = raising_iter(real, k_raise) if k_raise is not None else real
        self.begin("batch_replace", fault, t, [(i, o.uid, nw.describe()) for i, o, nw in rep], k_raise)
        if any(0 <= i < n and sum(1 for x in L[i] if x.uid == o.uid) > 1 for i, o, _ in rep):
            self.pending_fp = "batch-remove-equal-ops"
        self.run_atomic(t, "batch_replace", fault, lambda: lv.c.batch_replace(arg),
                        lambda: M.batch_replace(L, rep), [nw for _, _, nw in rep])

    def call_clear(self) -> None:
        t = self.pick_target()
        lv = self.pool[t]
        L, n, tp = lv.m, len(lv.m), self.tape
        qs = sorted({tp.draw(NQ, "qubit") for _ in range(tp.between(1, 2, "n-qubits"))})
        idx = [tp.draw(n + 2, "moment") for _ in range(tp.between(1, 4, "n-indices"))]
        fault, k_raise, on_qubits = "ok", None, False
        if self.want_fault("iter-raises"):
            fault = "iter-raises"
            on_qubits = tp.chance(1, 4, "raise-in-qubits")
            k_raise = tp.draw((len(qs) if on_qubits else len(idx)) + 1, "raise-after")
        rq = [self.Q[q] for q in qs]
        qarg = raising_iter(rq, k_raise) if (k_raise is not None and on_qubits) else (rq if tp.chance(1, 2, "q-list") else iter(rq))
        iarg = raising_iter(idx, k_raise) if (k_raise is not None and not on_qubits) else (idx if tp.chance(1, 2, "i-list") else iter(idx))
        self.begin("clear_operations_touching", fault, t, qs, idx, k_raise, on_qubits)
        status, _ = self.attempt(lambda: lv.c.clear_operations_touching(qarg, iarg))
        if status == "injected":
            if not on_qubits:
                self.ctx.probe("clear-with-failing-index-iterator")
            N = self.decode(lv.c)
            full = M.clear_touching(L, qs, idx if on_qubits else idx[:k_raise])
            ok = len(N) == len(L) and all(
                set(o.uid for o in N[i]) <= set(o.uid for o in L[i]) and set(o.uid for o in full[i]) <= set(o.uid for o in N[i])
                for i in range(len(L)))
            if not ok:
                self.flag("C05-LOST", f"clear_operations_touching({qs}, {idx} failing after {k_raise}) on {M.show(L)} "
                                      f"left {M.show(N)}: not between 'unchanged' and 'cleared up to the failure'")
            lv.m = N
        else:
            if fault != "ok":
                raise HarnessError("iter-raises not delivered by clear_operations_touching")
            self.settle_exact(t, M.clear_touching(L, qs, idx), "C05-LOST")
        self.note_mut(t, "M")

    def borrow_moment(self) -> MMoment:
        """A Moment for item assignment: new operations, or a moment that lives in some circuit."""
        tp = self.tape
        if tp.chance(1, 4, "borrow"):
            src = self.pool[tp.draw(len(self.pool), "borrow-from")].m
            if src:
                return MMoment(src[tp.draw(len(src), "borrow-moment")])
        return self.gen_moment()

    def call_setitem_int(self) -> None:
        t = self.pick_target()
        lv = self.pool[t]
        L, n, tp = lv.m, len(lv.m), self.tape
        mm = self.borrow_moment()
        i = tp.between(-n, n - 1, "index") if n else 0
        fault = "ok"
        value: Any = cirq.Moment([self.reg.real(o) for o in mm])
        bad_kind = None
        if self.want_fault("bad-arg") or n == 0:
            fault = "bad-arg"
            bad_kind = tp.draw(2, "bad-kind") if n else 1
            if bad_kind == 0:
                o = self.gen_op()
                mm = MMoment([o])
                value = self.reg.real(o) if tp.chance(1, 2, "op-or-list") else [self.reg.real(o)]
            else:
                i = n + tp.draw(2, "over") if tp.chance(1, 2, "over-or-under") else -n - 1 - tp.draw(2, "under")
        npkey = tp.chance(1, 3, "numpy-index") and (bad_kind != 0 or not pending("setitem-numpy-int-skips-type-check"))
        self.begin("setitem_int", fault, t, i, self.desc_items([mm]), bad_kind, npkey)
        if npkey and bad_kind == 0:
            self.pending_fp = "setitem-numpy-int-skips-type-check"
        key: Any = np.int64(i) if npkey else i

        def fn():
            lv.c[key] = value

        def model():
            if bad_kind == 0:
                raise ModelRaises(("TypeError",), "Can only assign Moments into Circuits")
            return M.setitem_int(L, i, mm)

        self.run_atomic(t, "setitem_int", fault, fn, model, list(mm))

    def call_setitem_slice(self) -> None:
        t = self.pick_target()
        lv = self.pool[t]
        L, n, tp = lv.m, len(lv.m), self.tape
        a = tp.between(-1, n + 1, "slice-start")
        b = tp.between(-1, n + 1, "slice-stop")
        step = [None, None, 1, 2, -1][tp.draw(5, "slice-step")]
        sl = slice(None if a < 0 else a, None if b < 0 else b, step)
        if step in (None, 1):
            k = tp.draw(4, "n-moments")
        else:
            k = len(range(*sl.indices(n)))
            if tp.chance(1, 8, "wrong-size"):
                k += 1
        moms = [self.borrow_moment() for _ in range(k)]
        fault, k_raise, bad = "ok", None, False
        vals: List[Any] = [cirq.Moment([self.reg.real(o) for o in mm]) for mm in moms]
        if self.want_fault("bad-arg"):
            fault, bad = "bad-arg", True
            o = self.gen_op()
            vals.insert(tp.draw(len(vals) + 1, "bad-at"), self.reg.real(o))
        elif self.want_fault("iter-raises"):
            fault, k_raise = "iter-raises", tp.draw(len(vals) + 1, "raise-after")
        arg = raising_iter(vals, k_raise) if k_raise is not None else (vals if tp.chance(1, 2, "as-list") else iter(vals))
        self.begin("setitem_slice", fault, t, (sl.start, sl.stop, sl.step), [self.desc_items([mm]) for mm in moms], k_raise, bad)

        def fn():
            lv.c[sl] = arg

        def model():
            if bad:
                raise ModelRaises(("TypeError",), "Can only assign Moments into Circuits")
            return M.setitem_slice(L, sl, moms)

        self.run_atomic(t, "setitem_slice", fault, fn, model, [o for mm in moms for o in mm])

    def call_delitem(self) -> None:
        t = self.pick_target()
        lv = self.pool[t]
        L, n, tp = lv.m, len(lv.m), self.tape
        fault = "ok"
        if tp.chance(1, 2, "del-slice"):
            a = tp.between(-1, n + 1, "slice-start")
            b = tp.between(-1, n + 1, "slice-stop")
            key: Any = slice(None if a < 0 else a, None if b < 0 else b, [None, 2, -1][tp.weighted([4, 1, 1], "slice-step")])
            kd: Any = (key.start, key.stop, key.step)
        else:
            key = tp.between(-n, n - 1, "index") if n else 0
            if self.want_fault("bad-arg") or n == 0:
                fault = "bad-arg"
                key = n + tp.draw(2, "over")
            kd = key
        self.begin("delitem", fault, t, kd)

        def fn():
            del lv.c[key]

        self.run_atomic(t, "delitem", fault, fn, lambda: M.delitem(L, key), [])

    def call_imul(self) -> None:
        t = self.pick_target()
        lv = self.pool[t]
        tp = self.tape
        k = tp.weighted([1, 2, 4, 1], "times")
        if sum(len(m) for m in lv.m) * k > 40 or len(lv.m) * k > 30:
            k = 1
        fault = "ok"
        rep: Any = k if tp.chance(3, 4, "int") else np.int64(k)
        self.begin("imul", fault, t, k)
        c = lv.c
        c *= rep
        if c is not lv.c:
            self.flag("C05-ALIAS", "*= returned a different object")
        self.settle_exact(t, M.repeat(lv.m, k), "C05-LOST")
        self.note_mut(t, "M")

    # ------------------------------------------------------------------ value-returning calls
    def result_exact(self, circ, exp: M.Layout, operands: Sequence[int], name: str, cls: str = "C05-PLACE") -> None:
        if not isinstance(circ, cirq.Circuit):
            self.flag("C05-PLACE", f"{name} returned {type(circ).__name__}, not a Circuit")
            return
        N = self.decode(circ)
        if not M.same_layout(N, exp):
            self.mismatch(exp, N, cls)
        for j in operands:
            if circ is self.pool[j].c:
                self.flag("C05-ALIAS", f"{name} returned its operand itself")
                return
        self.place_result(circ, N, operands, name)

    def call_copy(self) -> None:
        t = self.pick_target()
        lv = self.pool[t]
        how = self.tape.draw(6, "copy-how")
        self.begin(["copy", "copy.copy", "unfreeze", "unfreeze(copy=False)", "freeze.unfreeze", "slice-all"][how], "ok", t)
        c = lv.c
        if how == 3:
            r = c.unfreeze(copy=False)
            self.ctx.probe("unfreeze-copy-false")
            if r is not c:
                self.flag("C05-ALIAS", "unfreeze(copy=False) on a Circuit did not return the circuit itself")
            return
        r = [c.copy, lambda: _copy.copy(c), c.unfreeze, None, lambda: c.freeze().unfreeze(), lambda: c[:]][how]()
        if how == 4:
            lv.hist += "Q"
        self.result_exact(r, M.copy_layout(lv.m), [t], "copy")

    def call_add(self) -> None:
        t = self.pick_target()
        lv = self.pool[t]
        tp = self.tape
        if tp.chance(1, 2, "add-circuit"):
            j = tp.draw(len(self.pool), "other")
            frozen_rhs = tp.chance(1, 4, "frozen-rhs")
            self.begin("add-circuit", "ok", t, j, frozen_rhs)
            self.touched.add(j)
            other = self.pool[j]
            r = lv.c + (other.c.freeze() if frozen_rhs else other.c)
            self.result_exact(r, M.concat(lv.m, other.m), [t, j], "+")
            return
        items = self.gen_items()
        tree = self.shape([self.real_item(it) for it in items])
        self.begin("add-tree", "ok", t, self.desc_items(items))
        r = lv.c + tree
        if r is lv.c:
            self.flag("C05-ALIAS", "+ returned its operand")
            return
        N = self.settle_insert(t, len(lv.m), items, M.EARLIEST, None, circ=r, base=lv.m)
        self.place_result(r, N, [t], "+")

    def call_radd(self) -> None:
        t = self.pick_target()
        lv = self.pool[t]
        tp = self.tape
        items = self.gen_items(lo=1)
        sh = tp.draw(4, "radd-shape")
        if sh == 3:
            items = items[:1]      # a bare Operation or a bare Moment on the left of +
        reals = [self.real_item(it) for it in items]
        tree = [list(reals), tuple(reals), (x for x in reals), reals[0]][sh]
        self.begin("radd", "ok", t, self.desc_items(items), sh)
        r = tree + lv.c
        N = self.decode(r)
        n0 = len(lv.m)
        tail = N[len(N) - n0:] if n0 else []
        head = N[:len(N) - n0]
        ins = M.flatten_items(items)
        pr = M.conservation(M.uids_of(lv.m), M.uids_of(N), [o.uid for o in ins])
        if pr is not None:
            self.flag(pr[0], f"{pr[1]}: [{self.desc_items(items)}] + {M.show(lv.m)} gave {M.show(N)}")
        elif len(N) < n0 or not M.same_layout(tail, lv.m):
            self.flag("C05-ORDER", f"[{self.desc_items(items)}] + {M.show(lv.m)} gave {M.show(N)}: the circuit's own "
                                   f"moments are not kept at the end")
        else:
            probs = M.check_packed(head, items)
            if probs:
                self.flag(probs[0][0], f"[{self.desc_items(items)}] + circuit: prefix {M.show(head)}: {probs[0][1]}")
        if r is lv.c:
            self.flag("C05-ALIAS", "__radd__ returned its operand")
            return
        self.place_result(r, N, [t], "radd")

    def call_mul(self) -> None:
        t = self.pick_target()
        lv = self.pool[t]
        tp = self.tape
        k = tp.weighted([1, 2, 4, 1], "times")
        if sum(len(m) for m in lv.m) * k > 40 or len(lv.m) * k > 30:
            k = 1
        left = tp.chance(1, 3, "rmul")
        bad = self.want_fault("bad-arg")
        self.begin("rmul" if left else "mul", "bad-arg" if bad else "ok", t, k)
        if bad:
            status, _ = self.attempt(lambda: (1.5 * lv.c) if left else (lv.c * 1.5), ("TypeError",))
            if status == "raised":
                self.ctx.fault("bad-arg")
            else:
                self.flag("C05-NORAISE", "circuit * 1.5 did not fail")
            return
        r = (k * lv.c) if left else (lv.c * k)
        self.result_exact(r, M.repeat(lv.m, k), [t], "*", "C05-LOST")

    def call_pow(self) -> None:
        t = self.pick_target()
        lv = self.pool[t]
        bad = self.want_fault("bad-arg")
        inv = [[self.reg.inverse(o) for o in m] for m in reversed(lv.m)]
        invertible = all(o is not None for m in inv for o in m)
        self.begin("pow", "bad-arg" if bad else "ok", t, 2 if bad else -1, invertible)
        if bad or not invertible:
            # (a CircuitOperation holding a measurement answers ** -1 with ValueError rather than
            # NotImplemented; that is the operation's business, not the circuit's)
            status, _ = self.attempt(lambda: lv.c ** (2 if bad else -1),
                                     ("TypeError",) if bad else ("TypeError", "ValueError"))
            if status == "raised":
                if bad:
                    self.ctx.fault("bad-arg")
            else:
                self.flag("C05-NORAISE", f"circuit ** {2 if bad else -1} on {M.show(lv.m)} did not fail")
            return
        r = lv.c ** -1
        self.result_exact(r, inv, [t], "**-1", "C05-ORDER")

    def two_operands(self) -> Tuple[int, int]:
        t = self.pick_target()
        j = self.tape.draw(len(self.pool), "other")
        return t, j

    def call_zip(self) -> None:
        tp = self.tape
        count = tp.weighted([5, 3, 1, 1], "n-operands") + 2          # 2, 3, 0 or 1 ...
        count = {2: 2, 3: 1, 4: 3, 5: 0}[count]
        t, j = self.two_operands()
        idx = {0: [], 1: [t], 2: [t, j], 3: [t, j, t if tp.chance(1, 2, "third") else j]}[count]
        right = tp.chance(1, 3, "align-right")
        static = tp.chance(1, 2, "static-call") or count == 0
        fz = tp.chance(1, 5, "frozen-arg") and count >= 2
        self.begin("zip", "ok", t if count else None, idx, right, static, fz)
        for x in idx:
            self.touched.add(x)
        align = cirq.Alignment.RIGHT if right else [cirq.Alignment.LEFT, "left"][tp.draw(2, "align-str")]
        cs = [self.pool[x].c for x in idx]
        if fz:
            cs[-1] = cs[-1].freeze()
        fn = (lambda: cirq.Circuit.zip(*cs, align=align)) if static else (lambda: cs[0].zip(*cs[1:], align=align))
        try:
            exp = M.zip_layouts([self.pool[x].m for x in idx], right)
            expect = None
        except ModelRaises as mr:
            exp, expect = None, mr.kinds
            self.cur = ("zip", "bad-arg")
        status, r = self.attempt(fn, expect)
        if status == "raised":
            self.ctx.fault("bad-arg")
            return
        if expect is not None:
            self.flag("C05-NORAISE", f"zip of overlapping circuits {[M.show(self.pool[x].m) for x in idx]} did not fail")
            return
        self.result_exact(r, exp, sorted(set(idx)), "zip")

    def call_concat_ragged(self) -> None:
        tp = self.tape
        count = {0: 2, 1: 1, 2: 0}[tp.weighted([6, 2, 1], "n-operands")]
        t, j = self.two_operands()
        idx = [t, j][:count]
        al = tp.draw(3, "align")
        self.begin("concat_ragged", "ok", t if count else None, idx, al)
        for x in idx:
            self.touched.add(x)
        align = [cirq.Alignment.LEFT, cirq.Alignment.RIGHT, cirq.Alignment.FIRST][al]
        cs = [self.pool[x].c for x in idx]
        r = cirq.Circuit.concat_ragged(*cs, align=align) if (tp.chance(1, 2, "static-call") or not cs) \
            else cs[0].concat_ragged(*cs[1:], align=align)
        if count < 2:
            self.result_exact(r, M.copy_layout(self.pool[t].m) if count else [], idx, "concat_ragged")
            return
        a, b = self.pool[t], self.pool[j]
        N = self.decode(r)
        pr = M.conservation(M.uids_of(a.m) + M.uids_of(b.m), M.uids_of(N))
        if pr is not None:
            self.flag(pr[0], f"{pr[1]}: concat_ragged({M.show(a.m)}, {M.show(b.m)}) gave {M.show(N)}")
        else:
            probs = M.check_concat_ragged(a.m, b.m, N, key_order=not pending("concat-ragged-key-order"))
            if probs:
                fp = "C05-ORDER:concat-ragged-key-order" if probs[0][0] == "C05-ORDER:key" else None
                self.flag(probs[0][0].split(":")[0], f"concat_ragged({M.show(a.m)}, {M.show(b.m)}, {align}) gave "
                                                     f"{M.show(N)}: {probs[0][1]}", fp)
        if any(r is self.pool[x].c for x in idx):
            self.flag("C05-ALIAS", "concat_ragged returned its operand itself")
            return
        self.place_result(r, N, sorted(set(idx)), "concat_ragged")

    def call_transform_qubits(self) -> None:
        t = self.pick_target()
        lv = self.pool[t]
        tp = self.tape
        how = tp.draw(4, "transform-how")
        perm = list(range(NQ))
        if how in (0, 1):
            a = tp.draw(NQ, "swap-a")
            b = (a + 1 + tp.draw(NQ - 1, "swap-b")) % NQ
            perm[a], perm[b] = perm[b], perm[a]
        elif how == 2:
            r = 1 + tp.draw(NQ - 1, "rotate")
            perm = [(i + r) % NQ for i in range(NQ)]
        else:
            perm = tp.shuffle(perm, "perm")
        qmap = {i: perm[i] for i in range(NQ) if perm[i] != i}
        Q = self.Q
        bad = self.want_fault("bad-arg")
        self.begin("transform_qubits", "bad-arg" if bad else "ok", t, perm, how)
        if bad:
            status, _ = self.attempt(lambda: lv.c.transform_qubits([1, 2]), ("TypeError",))
            if status == "raised":
                self.ctx.fault("bad-arg")
            else:
                self.flag("C05-NORAISE", "transform_qubits(list) did not fail")
            return
        fn = lambda q: Q[perm[q.x]]   # noqa: E731
        arg = {Q[i]: Q[p] for i, p in qmap.items()} if how in (0, 3) else fn
        exp = [[self.reg.transformed(o, qmap, fn) for o in m] for m in lv.m]
        r = lv.c.transform_qubits(arg)
        if not pending("transform-qubits-drops-tags") and tuple(r.tags) != tuple(lv.c.tags):
            self.flag("C05-PLACE", f"transform_qubits on a circuit with tags {lv.c.tags} returned tags {r.tags}",
                      "C05-PLACE:transform-qubits-drops-tags")
        self.result_exact(r, exp, [t], "transform_qubits")

    def call_with_tags(self) -> None:
        t = self.pick_target()
        lv = self.pool[t]
        k = self.tape.draw(3, "n-tags")
        tags = ("T%d" % self.step_no, "W")[:k]
        self.begin("with_tags", "ok", t, k)
        old = lv.c.tags
        r = lv.c.with_tags(*tags)
        if k == 0:
            if r is not lv.c and self.decode(r) != lv.m:
                self.flag("C05-PLACE", "with_tags() changed the circuit")
            return
        if tuple(r.tags) != tuple(old) + tags:
            self.flag("C05-PLACE", f"with_tags{tags} on tags {old} gave tags {r.tags}")
        self.result_exact(r, M.copy_layout(lv.m), [t], "with_tags")

    def call_slice(self) -> None:
        t = self.pick_target()
        lv = self.pool[t]
        tp = self.tape
        n = len(lv.m)
        a = tp.between(-1, n + 1, "slice-start")
        b = tp.between(-1, n + 1, "slice-stop")
        step = [None, None, 2, -1][tp.draw(4, "slice-step")]
        sl = slice(None if a < 0 else a - (n // 2 if tp.chance(1, 6, "neg") else 0), None if b < 0 else b, step)
        qk = tp.draw(3, "slice-qubits")
        qs = None
        self.begin("slice", "ok", t, (sl.start, sl.stop, sl.step), qk)
        if qk == 0:
            r = lv.c[sl]
        elif qk == 1:
            qs = [tp.draw(NQ, "qubit")]
            r = lv.c[sl, self.Q[qs[0]]]
        else:
            qs = sorted({tp.draw(NQ, "qubit"), tp.draw(NQ, "qubit")})
            if not pending("slice-qubits-one-shot-iterable") and tp.chance(1, 2, "qubits-generator"):
                self.pending_fp = "slice-qubits-one-shot-iterable"
                r = lv.c[sl, (self.Q[q] for q in qs)]
            else:
                r = lv.c[sl, [self.Q[q] for q in qs]]
        self.result_exact(r, M.slice_layout(lv.m, sl, qs), [t], "slice", "C05-LOST")

    def call_freeze(self) -> None:
        t = self.pick_target()
        lv = self.pool[t]
        self.begin("freeze", "ok", t)
        fz = lv.c.freeze()
        lv.hist += "Q"
        if not isinstance(fz, cirq.FrozenCircuit):
            self.flag("C05-PLACE", "freeze() did not return a FrozenCircuit")
        got = self.decode(fz)
        if not M.same_layout(got, lv.m):
            self.mismatch(lv.m, got)
        if len(self.frozen) >= 2:
            self.frozen.pop(0)
        self.frozen.append((fz, M.layout_key(lv.m)))

    def call_construct(self) -> None:
        tp = self.tape
        how = tp.weighted([2, 5, 3, 2], "construct-how")
        strategy = M.EARLIEST
        items: List[Any] = []
        if how == 1:
            items = self.gen_items()
        elif how == 2:
            items = self.gen_items()
            strategy = M.STRATEGIES[tp.draw(5, "strategy")]
        elif how == 3:
            items = [self.gen_moment() for _ in range(tp.draw(5, "n-moments"))]
        self.begin("construct", "ok", None, how, strategy, self.desc_items(items))
        reals = [self.real_item(it) for it in items]
        if how == 0:
            c = cirq.Circuit()
        elif how == 3:
            c = cirq.Circuit(reals) if tp.chance(1, 2, "as-list") else cirq.Circuit(*reals)
        elif how == 1:
            c = cirq.Circuit(self.shape(reals)) if tp.chance(1, 2, "as-tree") else cirq.Circuit(*reals)
        else:
            c = cirq.Circuit(self.shape(reals), strategy=getattr(cirq.InsertStrategy, strategy))
        N = self.decode(c)
        ins = M.flatten_items(items)
        pr = M.conservation([], M.uids_of(N), [o.uid for o in ins])
        if pr is not None:
            self.flag(pr[0], f"{pr[1]}: Circuit({self.desc_items(items)}) is {M.show(N)}")
        elif how == 3:
            if not M.same_layout(N, [list(m) for m in items]):
                self.mismatch([list(m) for m in items], N)
        elif len(items) == 1:
            self.settle_insert(0, 0, items, strategy, None, circ=c, base=[])
        else:
            probs = M.check_packed(N, items, strategy)
            if probs:
                self.flag(probs[0][0], f"Circuit([{self.desc_items(items)}], strategy={strategy}) is {M.show(N)}: {probs[0][1]}")
        self.place_result(c, N, [], "construct")

    # ------------------------------------------------------------------ the run
    def go(self) -> None:
        tp, ctx = self.tape, self.ctx
        ctx.workload = "E5-edit-history"
        n_init = 1 + tp.weighted([3, 2, 1], "n-circuits")
        n_calls = 4 + tp.draw(21, "n-calls")
        profile = tp.draw(len(PROFILES), "profile")
        for kind in ("bad-arg", "iter-raises", "conflict-mid-batch"):
            rate = tp.weighted([3, 3, 2], "fault-rate:" + kind)   # 0, 1/8, 2/8 of the eligible calls
            if rate:
                self.faults_on[kind] = rate
                ctx.fault_configured(kind)
        ctx.decide("cfg", n_init, n_calls, profile, sorted(self.faults_on.items()))
        weights = PROFILES[profile]
        self.step_no = 0
        for _ in range(n_init):
            self.touched = set()
            self.mutated = set()
            self.call_construct()
            self.force_target = None
        self.check_all()
        for s in range(1, n_calls + 1):
            self.step_no = s
            self.touched = set()
            self.mutated = set()
            self.pending_fp = None
            name = CALLS[tp.weighted(weights, "call")]
            getattr(self, "call_" + {"clear": "clear"}.get(name, name))()
            ctx.steps += 1
            self.pending_fp = None
            self.check_all(final=(s == n_calls))
            self.workload_queries()
        ctx.sample = {"circuits": n_init, "calls": n_calls, "profile": profile, "faults": sorted(self.faults_on.items()),
                      "history": [_jsonable(d) for d in ctx.decisions[:60]],
                      "final": [M.show(lv.m) for lv in self.pool]}
        if self.known_hit is not None:
            raise self.known_hit


def _jsonable(d):
    return [x if isinstance(x, (int, str, bool, type(None))) else repr(x) for x in d]


def _minus(a: Sequence[str], b: Sequence[str]) -> List[str]:
    """Multiset difference a - b."""
    cnt: Dict[str, int] = {}
    for u in b:
        cnt[u] = cnt.get(u, 0) + 1
    out = []
    for u in a:
        if cnt.get(u, 0) > 0:
            cnt[u] -= 1
        else:
            out.append(u)
    return out


def _same(a, b) -> bool:
    try:
        return bool(a == b)
    except Exception:  # noqa: BLE001
        return False


def _short(x, n: int = 300) -> str:
    s = repr(x)
    return s if len(s) <= n else s[:n] + "..."


def _signature(c):
    out = []
    for k, v in c.__dict__.items():
        if isinstance(v, list):
            out.append((k, tuple(map(id, v))))
        elif hasattr(v, "__dict__") and not isinstance(v, (cirq.AbstractCircuit, cirq.Moment)):
            out.append((k, repr(sorted((kk, repr(vv)) for kk, vv in v.__dict__.items()))))
        else:
            out.append((k, id(v)))
    return tuple(out)


class C05(Check):
    property_id = "C05"
    engine = "E5 edit-history machine"
    technique = ("deterministic simulation: tape-driven histories of public Circuit calls with calls that fail "
                 "part-way injected as faults, checked call by call against a list-of-lists reference model "
                 "and a freshly rebuilt circuit")
    rule = ("one run = one tape-decided history: 1-3 circuits built, then 4-24 public calls (mutating, "
            "value-returning, failing part-way) with workload queries between them; non-trivial = some circuit "
            "received a mutating call, then a workload query, then another mutating call; distinct = distinct "
            "digest of the decoded call sequence (configuration, every call with its arguments and fault, every "
            "workload query)")
    state_measure = ("(number of moments bucketed, which of the six cached fields of the Circuit object -- placement "
                     "cache, frozen view, qubit set, is_measurement, is_parameterized, parameter names -- are "
                     "populated) of a circuit at the time its queries are compared")
    assumptions = [
        "single-operation protocols (qubits, measurement/control keys, inverse, transform_qubits of one "
        "operation) are trusted: the model's conflict relation is computed from the harness's own alphabet table",
        "bounds: <= 24 calls, 4 line qubits, <= 3 live circuits, <= 8 operations per call, two measurement keys",
        "cache coherence is observed on a copy of the Circuit object that keeps its cached fields "
        "(object.__dict__ copy), so that checking does not itself populate the caches of the live object; "
        "workload queries on the live object are tape choices",
        "for multi-operation inserts, insert_into_range, insert_at_frontier, concat_ragged only the constraints "
        "the property states are asserted (DESIGN.md section 4 C05), not equality with the implementation",
    ]
    real_vs_stub = {
        "real": "cirq.Circuit, cirq.FrozenCircuit, cirq.Moment, insert strategies, op_tree flattening, all queries",
        "stub": "nothing is stubbed; the reference is engines/circuit_model.py (list of lists of abstract operations)",
    }
    tiers = {"quick": {"runs": 14000, "wall": 85}, "thorough": {"runs": 300000, "wall": 1500}}
    per_run_timeout = 60
    expected_probes = ["query-between-two-appends", "append-after-mid-circuit-insert", "failed-inline-batch",
                       "clear-with-failing-index-iterator", "unfreeze-copy-false", "negative-index-below-minus-len",
                       "key-conflict-forces-new-moment", "placement-cache-alive-at-check"]

    def __init__(self) -> None:
        self.known_fps: set = set()
        self.probe_ops: list = []
        self.probe_items: list = []

    def setup(self) -> None:
        global cirq, np, sympy
        from simkit import repoenv
        from simkit.findings import Findings
        import cirq as _cirq
        import numpy as _np
        import sympy as _sympy
        repoenv.assert_working_tree(_cirq)
        cirq, np, sympy = _cirq, _np, _sympy
        Q = cirq.LineQubit.range(NQ)
        self.probe_ops = ([cirq.X(q).with_tags("probe") for q in Q]
                          + [cirq.X(Q[0]).with_classical_controls("a").with_tags("probe"),
                             cirq.X(Q[1]).with_classical_controls("b").with_tags("probe"),
                             cirq.measure(Q[2], key="a").with_tags("probe"),
                             cirq.measure(Q[3], key="b").with_tags("probe")])
        self.probe_items = self.probe_ops + [cirq.Moment(cirq.Y(Q[0]).with_tags("probe")), cirq.Moment()]
        self.known_fps = {e["fingerprint"] for e in Findings.load().findings if e.get("property") == P}

    def run_one(self, tape, ctx: Ctx) -> None:
        Run(self, tape, ctx).go()


CHECK = C05()
