#!/venv/bin/python
"""mkmutant.py <name> <property> <expect> <repo-relative-file> <old> <new> [--runs N] [--note text]
Writes selftest/mutants/<name>.patch replacing the single occurrence of <old> by <new>."""
import difflib
import os
import sys

def main():
    args = sys.argv[1:]
    extra = {}
    while len(args) > 6:
        k = args[6]; extra[k.lstrip("-")] = args[7]; args = args[:6] + args[8:]
    name, prop, expect, rel, old, new = args
    repo = os.environ.get("VERIF_REPO", "/repo")
    src = open(os.path.join(repo, rel)).read()
    old = old.encode().decode("unicode_escape"); new = new.encode().decode("unicode_escape")
    if src.count(old) != 1:
        sys.exit(f"{name}: pattern occurs {src.count(old)} times in {rel}")
    dst = src.replace(old, new)
    diff = "".join(difflib.unified_diff(src.splitlines(True), dst.splitlines(True), "a/" + rel, "b/" + rel))
    out = os.path.join(os.path.dirname(os.path.abspath(__file__)), "mutants", name + ".patch")
    with open(out, "w") as f:
        f.write(f"# property: {prop}\n# expect: {expect}\n")
        for k, v in extra.items():
            f.write(f"# {k}: {v}\n")
        f.write(diff)
    print("wrote", out)

main()
