"""E6 node program: one interpreter of the value-exchange cluster.

Started by engines/cluster.py as `/venv/bin/python node_main.py` with a PYTHONHASHSEED chosen by the
coordinator and VERIF_REPO pointing at the tree under test.  It imports the five Cirq packages from that
tree and then serves request frames (4-byte big-endian length + pickle of a dict), answering each with one
frame.  It never acts on its own: every effect is the answer to one request, so a run is a pure function of
the coordinator's tape.

Two ways to run it.  `node_main.py` (spawn mode): this process is the node, frames on fd 0 / fd 1.
`node_main.py --zygote <unix socket>` (the default way, see `zygote()` at the end): this process imports
everything and then only forks; every accepted connection gets a forked child which is the node and serves
frames on that connection.

The *payloads under test* (JSON text, gzip JSON, pickles of Cirq values, repr text) travel as opaque bytes
inside the frames.  Comparisons that need live objects (==, hash, dict membership, unitary bit-equality,
to_json idempotence, qid ordering) are evaluated here and returned as small verdict records made of
booleans and type names only -- never hash values, addresses or set reprs.

Every call into the code under test for which the property promises success is wrapped by `_sut(...)`;
an exception there is returned as status "sut" (the coordinator turns it into a violation).  Any other
exception is a defect of this file and is returned as status "error" (harness error).
"""
from __future__ import annotations

import os
import struct
import sys


def _takeover_stdio():
    """fd 0/1 carry frames; anything the code under test prints goes to stderr."""
    fin = os.fdopen(os.dup(0), "rb")
    fout = os.fdopen(os.dup(1), "wb")
    os.dup2(2, 1)
    sys.stdout = sys.stderr
    devnull = os.open(os.devnull, os.O_RDONLY)
    os.dup2(devnull, 0)
    os.close(devnull)
    return fin, fout


def _die_with_parent():
    try:
        import ctypes
        import signal
        libc = ctypes.CDLL("libc.so.6", use_errno=True)
        libc.prctl(1, signal.SIGKILL)  # PR_SET_PDEATHSIG
    except Exception:  # pragma: no cover - best effort
        pass


ZYGOTE_SOCKET = None
if __name__ == "__main__" and len(sys.argv) >= 3 and sys.argv[1] == "--zygote":
    # zygote mode (see the end of this file): frames travel over a unix socket per forked node;
    # stdout/stderr of this process are already a log file
    ZYGOTE_SOCKET = sys.argv[2]
    FIN = FOUT = None
    _die_with_parent()
elif __name__ == "__main__":
    FIN, FOUT = _takeover_stdio()
    _die_with_parent()
else:  # imported (debugging, tests of the recipe interpreter): no frames, no stdio games
    FIN = FOUT = None

ROOT = os.path.realpath(os.environ.get("VERIF_REPO", "/repo"))
PACKAGES = ("cirq-core", "cirq-google", "cirq-ionq", "cirq-aqt", "cirq-pasqal")
for _p in reversed(PACKAGES):
    sys.path.insert(0, os.path.join(ROOT, _p))

import copy  # noqa: E402
import datetime  # noqa: E402
import gc  # noqa: E402
import gzip  # noqa: E402
import importlib  # noqa: E402
import json  # noqa: E402
import pickle  # noqa: E402
import re  # noqa: E402
import traceback  # noqa: E402
import warnings  # noqa: E402

warnings.simplefilter("ignore")

import networkx as nx  # noqa: E402
import numpy as np  # noqa: E402
import pandas as pd  # noqa: E402
import sympy  # noqa: E402

import cirq  # noqa: E402
import cirq_aqt  # noqa: E402
import cirq_google  # noqa: E402
import cirq_ionq  # noqa: E402
import cirq_pasqal  # noqa: E402

for _m in (cirq, cirq_google, cirq_ionq, cirq_aqt, cirq_pasqal):
    _f = os.path.realpath(_m.__file__)
    if not _f.startswith(ROOT + os.sep):
        raise RuntimeError(f"node imported {_m.__name__} from {_f}, not from {ROOT}")

# the globals the repository's own json tests evaluate stored reprs with
# (cirq-core/cirq/protocols/json_serialization_test.py::_eval_repr_data_file)
EVAL_GLOBALS = {"cirq": cirq, "pd": pd, "sympy": sympy, "np": np, "datetime": datetime, "nx": nx,
                "cirq_aqt": cirq_aqt, "cirq_ionq": cirq_ionq, "cirq_google": cirq_google,
                "cirq_pasqal": cirq_pasqal}

CORPUS_DIRS = {
    "cirq": "cirq-core/cirq/protocols/json_test_data",
    "cirq_google": "cirq-google/cirq_google/json_test_data",
    "cirq_ionq": "cirq-ionq/cirq_ionq/json_test_data",
    "cirq_aqt": "cirq-aqt/cirq_aqt/json_test_data",
    "cirq_pasqal": "cirq-pasqal/cirq_pasqal/json_test_data",
    "cirq.contrib": "cirq-core/cirq/contrib/json_test_data",
}

HELD = {}


# ---------------------------------------------------------------------------------------------
# failures of the code under test
# ---------------------------------------------------------------------------------------------
class SutFailure(Exception):
    def __init__(self, record):
        super().__init__(record.get("exc_msg"))
        self.record = record


def _failure_record(op: str, e: BaseException) -> dict:
    frames = traceback.extract_tb(e.__traceback__)
    site = None
    innermost_in_repo = False
    for k, fr in enumerate(reversed(frames)):
        fn = os.path.realpath(fr.filename)
        if fn.startswith(ROOT + os.sep):
            site = f"{fn[len(ROOT) + 1:]}:{fr.name}"
            innermost_in_repo = (k == 0)
            break
    tb = "".join(traceback.format_exception(type(e), e, e.__traceback__))
    return {"op": op, "exc_type": type(e).__name__, "exc_msg": str(e)[:300], "site": site,
            "innermost_in_repo": innermost_in_repo, "tb": tb[-3000:]}


def _sut(op: str, fn, *args, **kwargs):
    try:
        return fn(*args, **kwargs)
    except Exception as e:  # noqa: BLE001 - classification is the point
        rec = _failure_record(op, e)
        if args:
            rec["subject"] = _tname(args[0])      # the value the call was about, for the fingerprint
        raise SutFailure(rec) from None


# ---------------------------------------------------------------------------------------------
# recipes: small JSON-able trees, built by the coordinator from tape draws, interpreted here
# ---------------------------------------------------------------------------------------------
def _num(r):
    """["i", n] int | ["f", num, den] float num/den (den a power of two: exact in binary and in JSON)
    | ["c", re_num, im_num, den] complex | ["s", name] symbol | ["e", op, a, b] sympy expression
    | ["pi", num, den] float multiple of pi (repr round-trips exactly)"""
    k = r[0]
    if k == "i":
        return int(r[1])
    if k == "f":
        return r[1] / r[2]
    if k == "c":
        return complex(r[1] / r[3], r[2] / r[3])
    if k == "pi":
        return float(np.pi * r[1] / r[2])
    if k == "nz":
        return -0.0                 # equal to 0.0, stored differently
    if k == "s":
        return sympy.Symbol(r[1])
    if k == "e":
        a, b = _num(r[2]), _num(r[3])
        if r[1] == "add":
            return sympy.Add(a, b)
        if r[1] == "mul":
            return sympy.Mul(a, b)
        if r[1] == "pow":
            return sympy.Pow(a, b)
        raise ValueError(r)
    raise ValueError(f"unknown number recipe {r!r}")


_SIMPLE_GATES = {
    "X": lambda: cirq.X, "Y": lambda: cirq.Y, "Z": lambda: cirq.Z, "H": lambda: cirq.H, "S": lambda: cirq.S,
    "T": lambda: cirq.T, "I": lambda: cirq.I, "CNOT": lambda: cirq.CNOT, "CZ": lambda: cirq.CZ,
    "SWAP": lambda: cirq.SWAP, "ISWAP": lambda: cirq.ISWAP, "SQRT_ISWAP": lambda: cirq.SQRT_ISWAP,
    "CCX": lambda: cirq.CCX, "CCZ": lambda: cirq.CCZ, "CSWAP": lambda: cirq.CSWAP,
    "SYC": lambda: cirq_google.SYC, "SycamoreGate": lambda: cirq_google.SycamoreGate(),
    "XX": lambda: cirq.XX, "YY": lambda: cirq.YY, "ZZ": lambda: cirq.ZZ,
    "R": lambda: cirq.ResetChannel(), "WillowGate": lambda: cirq_google.WillowGate(),
}

_EIGEN = {"XPow": cirq.XPowGate, "YPow": cirq.YPowGate, "ZPow": cirq.ZPowGate, "HPow": cirq.HPowGate,
          "CZPow": cirq.CZPowGate, "CXPow": cirq.CXPowGate, "SwapPow": cirq.SwapPowGate,
          "ISwapPow": cirq.ISwapPowGate, "XXPow": cirq.XXPowGate, "YYPow": cirq.YYPowGate,
          "ZZPow": cirq.ZZPowGate, "CCXPow": cirq.CCXPowGate, "CCZPow": cirq.CCZPowGate}


class Builder:
    """Interprets one recipe tree.  `share` nodes are memoised per build, so the same *instance* appears
    several times in the value (what exercises the VAL/REF memo of the JSON encoder)."""

    def __init__(self, validate: bool = False):
        self.shared = {}
        self.validate = validate      # first construction of a mutated stored example: is it a value at all?

    def build(self, r):
        return getattr(self, "b_" + r[0])(*r[1:])

    # -- qids ---------------------------------------------------------------------------------
    def b_lq(self, x):
        return cirq.LineQubit(x)

    def b_lqd(self, x, d):
        return cirq.LineQid(x, dimension=d)

    def b_gq(self, r, c):
        return cirq.GridQubit(r, c)

    def b_gqd(self, r, c, d):
        return cirq.GridQid(r, c, dimension=d)

    def b_nq(self, name):
        return cirq.NamedQubit(name)

    def b_nqd(self, name, d):
        return cirq.NamedQid(name, dimension=d)

    def b_p3d(self, x, y, z):
        return cirq_pasqal.ThreeDQubit(x, y, z)

    def b_p2d(self, x, y):
        return cirq_pasqal.TwoDQubit(x, y)

    def b_asqid(self, q, d):
        return self.build(q).with_dimension(d)

    def b_coupler(self, a, b):
        return cirq_google.Coupler(self.build(a), self.build(b))

    def b_cleanq(self, i, d, prefix):
        return cirq.ops.CleanQubit(i, d, prefix)

    def b_borrowq(self, i, d, prefix):
        return cirq.ops.BorrowableQubit(i, d, prefix)

    # -- scalars and small values -------------------------------------------------------------------
    def b_num(self, r):
        return _num(r)

    def b_mkey(self, name, path):
        return cirq.MeasurementKey(name=name, path=tuple(path))

    def b_duration(self, unit, n):
        return cirq.Duration(**{unit: _num(n)})

    def b_resolver(self, pairs):
        return cirq.ParamResolver({(sympy.Symbol(k[1]) if isinstance(k, list) else k): _num(v) for k, v in pairs})

    def b_sweep(self, kind, *a):
        if kind == "linspace":
            return cirq.Linspace(a[0], _num(a[1]), _num(a[2]), a[3])
        if kind == "points":
            return cirq.Points(a[0], [_num(x) for x in a[1]])
        if kind == "zip":
            return cirq.Zip(*[self.build(x) for x in a[0]])
        if kind == "product":
            return cirq.Product(*[self.build(x) for x in a[0]])
        raise ValueError(kind)

    def b_keycond(self, key, index):
        return cirq.KeyCondition(self.build(key), index)

    def b_bitmaskcond(self, key, index, target_value, equal_target, bitmask):
        k = self.build(key) if isinstance(key, list) else key
        return cirq.BitMaskKeyCondition(k, index=index, target_value=target_value, equal_target=equal_target,
                                        bitmask=bitmask)

    def b_sympycond(self, a, op, b):
        x, y = sympy.Symbol(a), (sympy.Symbol(b) if isinstance(b, str) else b)
        expr = {"gt": sympy.StrictGreaterThan, "ge": sympy.GreaterThan, "lt": sympy.StrictLessThan,
                "eq": sympy.Eq, "ne": sympy.Ne}[op](x, y)
        return cirq.SympyCondition(expr)

    def b_tag(self, kind, *a):
        if kind == "str":
            return a[0]
        if kind == "int":
            return a[0]
        if kind == "virtual":
            return cirq.VirtualTag()
        if kind == "physz":
            return cirq_google.PhysicalZTag()
        if kind == "routing":
            return cirq.RoutingSwapTag()
        if kind == "calib":
            return cirq_google.CalibrationTag(a[0])
        if kind == "compress":
            return cirq_google.CompressDurationTag()
        raise ValueError(kind)

    # -- gates ------------------------------------------------------------------------------------
    def b_g(self, name):
        return _SIMPLE_GATES[name]()

    def b_eigen(self, name, exponent, shift):
        return _EIGEN[name](exponent=_num(exponent), global_shift=_num(shift))

    def b_rot(self, axis, rads):
        return {"x": cirq.rx, "y": cirq.ry, "z": cirq.rz}[axis](_num(rads))

    def b_phasedx(self, p, e, s):
        return cirq.PhasedXPowGate(phase_exponent=_num(p), exponent=_num(e), global_shift=_num(s))

    def b_phasedxz(self, x, z, a):
        return cirq.PhasedXZGate(x_exponent=_num(x), z_exponent=_num(z), axis_phase_exponent=_num(a))

    def b_fsim(self, theta, phi):
        return cirq.FSimGate(theta=_num(theta), phi=_num(phi))

    def b_pfsim(self, t, z, c, g, p):
        return cirq.PhasedFSimGate(_num(t), _num(z), _num(c), _num(g), _num(p))

    def b_identity(self, shape):
        return cirq.IdentityGate(qid_shape=tuple(shape))

    def b_measure(self, n, key, invert, shape, confusion):
        kw = {}
        if invert is not None:
            kw["invert_mask"] = tuple(bool(b) for b in invert)
        if shape is not None:
            kw["qid_shape"] = tuple(shape)
        if confusion is not None:
            kw["confusion_map"] = {tuple(ix): np.array([[_num(x) for x in row] for row in m])
                                   for ix, m in confusion}
        k = self.build(key) if isinstance(key, list) else key
        return cirq.MeasurementGate(n, key=k, **kw)

    def b_reset(self, d):
        return cirq.ResetChannel(dimension=d)

    def b_channel(self, kind, p):
        f = {"depolarize": cirq.depolarize, "amplitude_damp": cirq.amplitude_damp,
             "phase_damp": cirq.phase_damp, "bit_flip": cirq.bit_flip, "phase_flip": cirq.phase_flip}[kind]
        return f(_num(p))

    def b_matrix(self, rows, shape, name, opts=None):
        m = np.array([[_num(x) for x in row] for row in rows])
        kw = {}
        if opts:
            if opts.get("dtype"):
                m = m.astype(getattr(np, opts["dtype"]))      # same entries, stored with another dtype
            if "unitary_check" in opts:
                kw["unitary_check"] = opts["unitary_check"]
        if shape is not None:
            kw["qid_shape"] = tuple(shape)
        if name is not None:
            kw["name"] = name
        return cirq.MatrixGate(m, **kw)

    def b_kraus(self, ops, key):
        kw = {} if key is None else {"key": key}
        return cirq.KrausChannel([np.array([[_num(x) for x in row] for row in m]) for m in ops], **kw)

    def b_mixedunitary(self, mixture, key):
        kw = {} if key is None else {"key": key}
        return cirq.MixedUnitaryChannel(
            [(_num(p), np.array([[_num(x) for x in row] for row in m])) for p, m in mixture], **kw)

    def b_lineardict(self, terms):
        return cirq.LinearDict({(tuple(k) if isinstance(k, list) else k): _num(v) for k, v in terms})

    def b_wait(self, duration, shape):
        return cirq.WaitGate(self.build(duration), qid_shape=tuple(shape))

    def b_gphase(self, c):
        return cirq.GlobalPhaseGate(_num(c))

    def b_controlled(self, sub, n, values, shape):
        kw = {}
        if values is not None:
            kw["control_values"] = [tuple(v) if isinstance(v, list) else v for v in values]
        if shape is not None:
            kw["control_qid_shape"] = tuple(shape)
        return cirq.ControlledGate(self.build(sub), num_controls=n, **kw)

    def b_perm(self, p):
        return cirq.QubitPermutationGate(list(p))

    def b_sqcliff(self, name):
        return getattr(cirq.SingleQubitCliffordGate, name)

    def b_tableau(self, n, ops):
        qs = cirq.LineQubit.range(n)
        gate_ops = []
        for name, idx in ops:
            g = {"H": cirq.H, "S": cirq.S, "X": cirq.X, "Y": cirq.Y, "Z": cirq.Z, "CNOT": cirq.CNOT,
                 "CZ": cirq.CZ, "SWAP": cirq.SWAP}[name]
            gate_ops.append(g.on(*[qs[i] for i in idx]))
        return cirq.CliffordGate.from_op_list(gate_ops, qs).clifford_tableau

    def b_cliffgate(self, n, ops):
        return cirq.CliffordGate.from_clifford_tableau(self.b_tableau(n, ops))

    def b_dps(self, paulis, coef, mutable):
        cls = cirq.MutableDensePauliString if mutable else cirq.DensePauliString
        return cls(paulis, coefficient=_num(coef))

    def b_boolham(self, names, exprs, theta):
        return cirq.BooleanHamiltonianGate(list(names), list(exprs), _num(theta))

    def b_phasor(self, ps, en, ep):
        return cirq.PauliStringPhasor(self.build(ps), exponent_neg=_num(en), exponent_pos=_num(ep))

    def b_internal(self, name, module, nq, kwargs):
        return cirq_google.InternalGate(gate_name=name, gate_module=module, num_qubits=nq,
                                        **{k: _num(v) for k, v in kwargs})

    def b_ionq(self, name, *a):
        if name == "GPI":
            return cirq_ionq.GPIGate(phi=_num(a[0]))
        if name == "GPI2":
            return cirq_ionq.GPI2Gate(phi=_num(a[0]))
        if name == "MS":
            return cirq_ionq.MSGate(phi0=_num(a[0]), phi1=_num(a[1]), theta=_num(a[2]))
        if name == "ZZ":
            return cirq_ionq.ZZGate(theta=_num(a[0]))
        raise ValueError(name)

    def b_pow(self, gate, e):
        return self.build(gate) ** _num(e)

    # -- operations -----------------------------------------------------------------------------------
    def b_op(self, gate, qubits):
        return self.build(gate).on(*[self.build(q) for q in qubits])

    def b_tagged(self, op, tags):
        return self.build(op).with_tags(*[self.build(t) for t in tags])

    def b_cop(self, op, conds):
        cs = [self.build(c) if isinstance(c, list) else c for c in conds]
        return self.build(op).with_classical_controls(*cs)

    def b_ctrlop(self, op, controls, values):
        kw = {}
        if values is not None:
            kw["control_values"] = [tuple(v) if isinstance(v, list) else v for v in values]
        return self.build(op).controlled_by(*[self.build(q) for q in controls], **kw)

    def b_pstring(self, coef, pairs):
        ps = cirq.PauliString({self.build(q): {"X": cirq.X, "Y": cirq.Y, "Z": cirq.Z}[p] for q, p in pairs},
                              coefficient=_num(coef))
        return ps

    def b_psum(self, terms):
        return cirq.PauliSum.from_pauli_strings([self.build(t) for t in terms])

    def b_pmeasure(self, obs, key):
        return cirq.PauliMeasurementGate([{"X": cirq.X, "Y": cirq.Y, "Z": cirq.Z}[p] for p in obs], key=key)

    # -- circuits -------------------------------------------------------------------------------------
    def b_moment(self, ops):
        return cirq.Moment([self.build(o) for o in ops])

    def b_circuit(self, moments):
        return cirq.Circuit([self.build(m) for m in moments])

    def b_frozen(self, moments, tags):
        return cirq.FrozenCircuit([self.build(m) for m in moments], tags=[self.build(t) for t in tags])

    def b_share(self, key, r):
        if key not in self.shared:
            self.shared[key] = self.build(r)
        return self.shared[key]

    def b_circuitop(self, frozen, opts):
        kw = {}
        if "repetitions" in opts:
            kw["repetitions"] = _num(opts["repetitions"])
        if "repetition_ids" in opts:
            kw["repetition_ids"] = list(opts["repetition_ids"])
        if "use_repetition_ids" in opts:
            kw["use_repetition_ids"] = opts["use_repetition_ids"]
        if "qubit_map" in opts:
            kw["qubit_map"] = {self.build(a): self.build(b) for a, b in opts["qubit_map"]}
        if "measurement_key_map" in opts:
            kw["measurement_key_map"] = {a: b for a, b in opts["measurement_key_map"]}
        if "param_resolver" in opts:
            kw["param_resolver"] = {sympy.Symbol(a): _num(b) for a, b in opts["param_resolver"]}
        if "parent_path" in opts:
            kw["parent_path"] = tuple(opts["parent_path"])
        if "repeat_until" in opts:
            kw["repeat_until"] = self.build(opts["repeat_until"])
        return cirq.CircuitOperation(self.build(frozen), **kw)

    # -- results / containers -------------------------------------------------------------------------
    def b_result(self, params, records):
        recs = {}
        for entry in records:
            k, v = entry[0], entry[1]
            arr = np.array(v, dtype=np.uint8)
            if len(entry) > 2:
                arr = arr.reshape(tuple(entry[2]))       # keeps the 3D shape of a result with zero repetitions
            recs[k] = arr
        return cirq.ResultDict(params=self.build(params), records=recs)

    def b_list(self, items):
        return [self.build(x) for x in items]

    def b_dict(self, pairs):
        return {k: self.build(v) for k, v in pairs}

    # -- values derived from other values through public methods --------------------------------------
    def b_derive(self, method, args, base):
        return derive(self.build(base), method, args)

    # -- stored examples, and stored examples with mutated literals ------------------------------------
    def b_mutrepr(self, pkg, name, text):
        """A stored .repr whose literals the coordinator has changed (ast).  Whatever the constructors accept is
        a legal instance built with non-default / falsy / unsorted arguments; what they refuse is discarded."""
        _import_named_contrib_modules(text)
        try:
            with _cpu_limit(MUTATED_EVAL_CPU_SECONDS):
                v = eval(text, dict(EVAL_GLOBALS), {})
        except _CpuLimit:
            raise Rejected("cpu-limit") from None
        except Exception as e:  # noqa: BLE001
            raise Rejected(type(e).__name__) from None
        if self.validate:
            original = self.b_corpus(pkg, name)
            if not _same_skeleton(original, v):
                raise Rejected("changed-type")      # e.g. sympy.Ne(a, a) collapses to BooleanFalse
            if _has_zero_qubit_stabilizer(v):
                raise Rejected("zero-qubit-stabilizer")   # degenerate, outside the workload (see assumptions)
            with _cpu_limit(MUTATED_EVAL_CPU_SECONDS):
                again = eval(text, dict(EVAL_GLOBALS), {})
            # A value that cannot even be compared with *itself* (XPowGate(dimension=0): ZeroDivisionError in
            # its own equality values) is an argument a lenient constructor should have refused: discarded.
            # (a shallow copy shares every attribute object: a class whose == only fails between *separately
            # built* instances -- raw numpy arrays compared with == -- passes this and is caught below)
            try:
                if isinstance(v, (list, tuple)):
                    twin = type(v)(copy.copy(x) if _is_cirq_obj(x) else x for x in v)
                else:
                    twin = copy.copy(v) if _is_cirq_obj(v) else v
                if not (_eq(v, twin) and _eq(twin, v)):
                    raise Rejected("not-self-equal")            # e.g. a NaN
            except Rejected:
                raise
            except Exception as e:  # noqa: BLE001
                raise Rejected("self-eq-raises:" + type(e).__name__) from None
            # Two constructions from one text must be ==; an exception from *that* == is not filtered: it
            # travels on as a failure of the code under test (equality that only works on the same instance).
            if not (_sut("mutated:eq", _eq, v, again) and _sut("mutated:eq", _eq, again, v)):
                raise Rejected("not-self-equal")    # no oracle can use a rebuilt reference
        return v

    def b_corpus(self, pkg, name):
        path = os.path.join(ROOT, CORPUS_DIRS[pkg], name + ".repr")
        with open(path) as f:
            text = f.read()
        _import_named_contrib_modules(text)
        return _sut("corpus-eval", eval, text, dict(EVAL_GLOBALS), {})


_CONTRIB_NAME = re.compile(r"\bcirq\.contrib\.([A-Za-z_][A-Za-z0-9_]*)")


def _import_named_contrib_modules(text: str) -> None:
    """Stored reprs of cirq.contrib name sub-packages (`cirq.contrib.noise_models.X(...)`).  The repository's
    own test evaluates them after importing cirq.contrib.json_test_data.spec, which imports those
    sub-packages; a user would import them too.  Done by name, so no resolver cache is warmed up here."""
    for name in sorted(set(_CONTRIB_NAME.findall(text))):
        try:
            importlib.import_module("cirq.contrib." + name)
        except ImportError:
            pass


MUTATED_EVAL_CPU_SECONDS = 4.0


class _CpuLimit(BaseException):
    pass


class _cpu_limit:
    """Bounds the *CPU time of this process* spent in a block (ITIMER_VIRTUAL: independent of machine load, so
    the same text is rejected or accepted on every machine).  A mutated literal can send a constructor into a
    loop (sympy.Float(..., precision=-1))."""

    def __init__(self, seconds: float):
        self.seconds = seconds

    def __enter__(self):
        import signal

        def _raise(signum, frame):
            raise _CpuLimit()

        self._prev = signal.signal(signal.SIGVTALRM, _raise)
        signal.setitimer(signal.ITIMER_VIRTUAL, self.seconds)
        return self

    def __exit__(self, *exc):
        import signal
        signal.setitimer(signal.ITIMER_VIRTUAL, 0)
        signal.signal(signal.SIGVTALRM, self._prev)
        return False


_SCALARS = (type(None), bool, int, float, complex, str)


def _same_skeleton(a, b, depth=0) -> bool:
    """Same classes in the same places (walking _json_dict_ trees in parallel); scalar leaves may differ in
    value and scalar type.  A mutated stored example must still be an instance of the classes it exercises."""
    if isinstance(a, _SCALARS) and isinstance(b, _SCALARS):
        return True
    if isinstance(a, np.generic) and isinstance(b, np.generic):
        return True
    if type(a) != type(b):  # noqa: E721
        return False
    if isinstance(a, np.ndarray):
        return True          # a changed num_qubits legitimately changes array shapes
    if depth > 60:
        return True
    if isinstance(a, dict):          # keys may have been mutated: pair the entries in order
        return len(a) == len(b) and all(
            _same_skeleton(ka, kb, depth + 1) and _same_skeleton(a[ka], b[kb], depth + 1)
            for ka, kb in zip(a, b))
    kids = _children(a, b)
    if kids is None:
        return False
    return all(_same_skeleton(x, y, depth + 1) for _, x, y in kids)


def _has_zero_qubit_stabilizer(v, depth=0) -> bool:
    """CliffordTableau / StabilizerStateChForm on zero qubits, or a CliffordGate built on one: the constructors
    accept them, nothing can be done with them; the workload leaves them out."""
    if isinstance(v, (cirq.CliffordTableau, cirq.StabilizerStateChForm)):
        return v.n == 0
    if isinstance(v, cirq.CliffordGate):
        return v.clifford_tableau.n == 0
    if depth > 40:
        return False
    if isinstance(v, (list, tuple)):
        return any(_has_zero_qubit_stabilizer(x, depth + 1) for x in v)
    if isinstance(v, dict):
        return any(_has_zero_qubit_stabilizer(x, depth + 1) for x in v.values())
    if _is_cirq_obj(v) and hasattr(v, "_json_dict_"):
        try:
            d = v._json_dict_()
        except Exception:  # noqa: BLE001
            return False
        return isinstance(d, dict) and any(_has_zero_qubit_stabilizer(x, depth + 1) for x in d.values())
    return False


class Rejected(Exception):
    """The constructors refused a mutated stored representation: not a value, nothing to check."""


class NotApplicable(Exception):
    """A derivation does not apply to this value."""


def build_value(recipe):
    return Builder().build(recipe)


# ---------------------------------------------------------------------------------------------
# derivations: a new value obtained from a held one through a public method
# ---------------------------------------------------------------------------------------------
_DERIVE_KEYS = ("m", "m0", "m1", "k", "a", "b", "x_meas")


def _map_qid(q):
    return cirq.NamedQid(f"t_{q}", dimension=q.dimension)


def _derive_one(x, method: str, args):
    """The derivation `method` applied to one value.  Raises NotApplicable where the method does not exist for
    the value's type; any other exception is the method's own."""
    is_circuit = isinstance(x, cirq.AbstractCircuit)
    is_op = isinstance(x, cirq.Operation)
    if method == "with_tags":
        if not (is_circuit or is_op or isinstance(x, cirq.Moment)):
            raise NotApplicable
        return x.with_tags(*[build_value(t) for t in args])
    if method == "freeze":
        if not is_circuit:
            raise NotApplicable
        return x.freeze()
    if method == "unfreeze":
        if not is_circuit:
            raise NotApplicable
        return x.unfreeze()
    if method == "untagged":
        if not (is_circuit or is_op):
            raise NotApplicable
        return x.untagged
    if method == "key_mapping":
        if not _is_cirq_obj(x) or not cirq.measurement_key_names(x):
            raise NotApplicable
        r = cirq.with_measurement_key_mapping(x, {k: k + "_d" for k in _DERIVE_KEYS})
        if r is NotImplemented:
            raise NotApplicable
        return r
    if method == "key_path_prefix":
        if isinstance(x, cirq.MeasurementKey):
            return x.with_key_path_prefix(*args)
        if not _is_cirq_obj(x) or not (cirq.measurement_key_names(x) or cirq.control_keys(x)):
            raise NotApplicable
        r = cirq.with_key_path_prefix(x, tuple(args))
        if r is NotImplemented:
            raise NotApplicable
        return r
    if method == "transform_qubits":
        if not (is_op or isinstance(x, (cirq.Circuit, cirq.Moment))):
            raise NotApplicable
        return x.transform_qubits(_map_qid)
    if method == "with_qubits":
        if not is_op or len(x.qubits) < 2:
            raise NotApplicable
        return x.with_qubits(*reversed(x.qubits))
    if method == "controlled_by":
        if is_op:
            return x.controlled_by(cirq.NamedQubit("ctl"))
        if isinstance(x, cirq.Gate):
            return x.controlled(1)
        raise NotApplicable
    if method == "inverse":
        if not _is_cirq_obj(x):
            raise NotApplicable
        r = cirq.inverse(x, None)
        if r is None:
            raise NotApplicable
        return r
    if method == "pow":
        if not (is_op or isinstance(x, cirq.Gate)):
            raise NotApplicable
        r = cirq.pow(x, _num(args[0]), None)
        if r is None:
            raise NotApplicable
        return r
    if method == "with_operation":
        if not isinstance(x, cirq.Moment):
            raise NotApplicable
        q = cirq.NamedQubit("extra")
        kind = args[0] if args else "x"
        if kind == "measure":
            op = cirq.measure(q, key="mx")
        elif kind == "controlled":
            op = cirq.X(q).with_classical_controls("m", cirq.KeyCondition(cirq.MeasurementKey("k"), 0))
        elif kind == "feedforward":
            # one operation that carries BOTH measurement keys and control keys
            op = cirq.CircuitOperation(cirq.FrozenCircuit(
                cirq.measure(q, key="mx"), cirq.X(q).with_classical_controls("mx"),
                cirq.Z(q).with_classical_controls("m")))
        else:
            op = cirq.X(q)
        return x.with_operation(op)
    if method == "repeat":
        if not isinstance(x, cirq.CircuitOperation):
            raise NotApplicable
        return x.repeat(args[0])
    if method == "with_params":
        if not isinstance(x, cirq.CircuitOperation):
            raise NotApplicable
        return x.with_params({sympy.Symbol(k): _num(v) for k, v in args})
    if method == "replace":
        if not isinstance(x, cirq.CircuitOperation):
            raise NotApplicable
        return x.replace(parent_path=tuple(args))
    if method == "resolve":
        if not _is_cirq_obj(x) or not cirq.is_parameterized(x):
            raise NotApplicable
        return cirq.resolve_parameters(x, {k: _num(v) for k, v in args})
    if method == "with_dimension":
        if not isinstance(x, cirq.Qid):
            raise NotApplicable
        return x.with_dimension(args[0])
    if method == "on":
        if not isinstance(x, cirq.Gate):
            raise NotApplicable
        shape = cirq.qid_shape(x)
        return x.on(*[cirq.LineQid(i, dimension=d) for i, d in enumerate(shape)])
    if method == "tableau_apply":
        # IN PLACE: the held object itself is updated (and returned) -- a hash cached before must not survive
        if not isinstance(x, cirq.CliffordTableau) or x.n < 1:
            raise NotApplicable
        which, axis = args[0], args[1] % x.n
        if which == "x":
            x.apply_x(axis)
        elif which == "h":
            x.apply_h(axis)
        elif which == "z":
            x.apply_z(axis)
        else:
            if x.n < 2:
                raise NotApplicable
            x.apply_cx(axis, (axis + 1) % x.n)
        return x
    if method == "with_classical_controls":
        if not is_op or cirq.measurement_key_names(x):
            raise NotApplicable
        return x.with_classical_controls(*[build_value(c) if isinstance(c, list) else c for c in args])
    raise ValueError(f"unknown derivation {method!r}")


def _derive_checked(x, method: str, args):
    r = _derive_one(x, method, args)
    if not _is_cirq_obj(r):
        raise NotApplicable      # e.g. cirq.inverse of an iterable is a tuple: not a value of a registered class
    return r


def derive(v, method: str, args):
    """Top-level lists (most stored examples are lists of instances) are derived element by element; elements
    the method does not apply to stay as they are."""
    if isinstance(v, list):
        out, n = [], 0
        for x in v:
            try:
                out.append(_derive_checked(x, method, args))
                n += 1
            except NotApplicable:
                out.append(x)
        if not n:
            raise NotApplicable
        return out
    return _derive_checked(v, method, args)


def derive_family(v) -> str:
    x = v[0] if isinstance(v, list) and v else v
    if isinstance(x, cirq.AbstractCircuit):
        return "circuit"
    if isinstance(x, cirq.CircuitOperation):
        return "circuitop"
    if isinstance(x, cirq.Operation):
        return "op"
    if isinstance(x, cirq.Moment):
        return "moment"
    if isinstance(x, cirq.Gate):
        return "gate"
    if isinstance(x, cirq.MeasurementKey):
        return "mkey"
    if isinstance(x, cirq.Qid):
        return "qid"
    if isinstance(x, cirq.CliffordTableau):
        return "tableau"
    return "other" if _is_cirq_obj(x) else "none"


# ---------------------------------------------------------------------------------------------
# oracle helpers (evaluated here, reported as booleans)
# ---------------------------------------------------------------------------------------------
def _eq(a, b) -> bool:
    """Equality as the repository's own json tests define it (cirq._compat.proper_eq): numpy arrays by
    array_equal, pandas objects by .equals, lists/tuples element-wise, everything else by ==."""
    if type(a) == type(b):  # noqa: E721
        if isinstance(a, np.ndarray):
            return bool(np.array_equal(a, b))
        if isinstance(a, (pd.DataFrame, pd.Index, pd.MultiIndex)):
            return bool(a.equals(b))
        if isinstance(a, (tuple, list)):
            return len(a) == len(b) and all(_eq(x, y) for x, y in zip(a, b))
    r = a == b
    if isinstance(r, np.ndarray):
        return bool(r.all())
    return bool(r)


def _tname(v) -> str:
    t = type(v)
    return f"{t.__module__.split('.')[0]}.{t.__qualname__}"


def _is_cirq_obj(v) -> bool:
    return type(v).__module__.split(".")[0] in ("cirq", "cirq_google", "cirq_ionq", "cirq_aqt", "cirq_pasqal")


def _cirq_top(v) -> bool:
    if isinstance(v, (list, tuple)):
        return len(v) > 0 and all(_is_cirq_obj(x) for x in v)
    return _is_cirq_obj(v)


def _try_hash(v):
    try:
        return True, hash(v)
    except TypeError:
        return False, None


def _elements(a, b):
    """Pairs to which the per-value oracles are applied: the values themselves, or -- for top-level
    lists/tuples of equal length (most stored examples are lists of instances) -- their elements."""
    if type(a) == type(b) and isinstance(a, (list, tuple)) and len(a) == len(b) and len(a) > 0:  # noqa: E721
        return list(zip(a, b))
    return [(a, b)]


def _children(a, b):
    """Parallel (label, x, y) sub-values of two values of one type; None when they cannot be walked in
    parallel, [] when there is nothing below."""
    if type(a) != type(b):  # noqa: E721
        return None
    if isinstance(a, (list, tuple)):
        return [(None, x, y) for x, y in zip(a, b)] if len(a) == len(b) else None
    if isinstance(a, dict):
        try:
            if len(a) != len(b) or any(k not in b for k in a):
                return None
        except TypeError:
            return None
        return [(None, a[k], b[k]) for k in a]
    if isinstance(a, (set, frozenset)):
        return []
    if _is_cirq_obj(a) and hasattr(a, "_json_dict_"):
        try:
            da, db = a._json_dict_(), b._json_dict_()
        except Exception:  # noqa: BLE001
            return None
        if not isinstance(da, dict) or not isinstance(db, dict) or list(da) != list(db):
            return None
        return [(k, da[k], db[k]) for k in da]
    return []


def locate_unequal(a, b, depth=0, owner=None) -> str:
    """Names the innermost Cirq object (and, if it can be told, its field) that differs between two values
    that should be equal, by walking their _json_dict_ trees in parallel.  Makes fingerprints specific:
    'cirq.KeyCondition.index' rather than 'cirq.Circuit'."""
    if _is_cirq_obj(a) and type(a) == type(b):  # noqa: E721
        owner = _tname(a)
    kids = _children(a, b) if depth < 60 else None
    if kids:
        for label, x, y in kids:
            try:
                same = _eq(x, y) and _eq(y, x)
            except Exception:  # noqa: BLE001
                same = False
            if not same:
                here = f"{owner}.{label}" if (label is not None and owner is not None and _is_cirq_obj(a)) else owner
                if _is_cirq_obj(x) and type(x) == type(y):  # noqa: E721
                    return locate_unequal(x, y, depth + 1, None)
                return locate_unequal(x, y, depth + 1, here)
    if owner is not None:
        return owner
    return _tname(a) if type(a) == type(b) else f"{_tname(a)}|{_tname(b)}"  # noqa: E721


def locate_hash_differs(a, b, depth=0) -> str:
    """Innermost hashable component of two equal values whose hashes differ."""
    kids = _children(a, b) if depth < 60 else None
    if kids:
        stack = list(kids)
        while stack:
            _, x, y = stack.pop(0)
            hx, vx = _try_hash(x)
            hy, vy = _try_hash(y)
            if hx and hy:
                if vx != vy:
                    return locate_hash_differs(x, y, depth + 1)
            elif not hx and not hy:
                sub = _children(x, y)
                if sub:
                    stack.extend(sub)
    return _tname(a)


def compare(a, b, what: str) -> dict:
    """Verdicts for 'a (imported/copied) must equal b (reference)'.  Only booleans and type names."""
    out = {"what": what, "eq": True, "eq_rev": True, "ne_false": True, "hashable_same": True,
           "hash_eq": True, "lookup": True, "hashable": None, "where": None, "type_a": _tname(a),
           "type_b": _tname(b)}

    def fail(field, x, i, y=None):
        if out[field]:
            out[field] = False
        if out["where"] is None:
            if y is not None and field in ("eq", "eq_rev", "ne_false"):
                out["where"] = locate_unequal(x, y)
            elif y is not None and field in ("hash_eq", "lookup"):
                out["where"] = locate_hash_differs(x, y)
            else:
                out["where"] = _tname(x)
            out["index"] = i

    whole_eq = _sut(what + ":eq", _eq, a, b)
    pairs = _elements(a, b)
    if not whole_eq and len(pairs) == 1:
        fail("eq", a, 0, b)
    any_hashable = False
    for i, (x, y) in enumerate(pairs):
        if len(pairs) > 1 and not _sut(what + ":eq", _eq, x, y):
            fail("eq", x, i, y)
        if not _sut(what + ":eq", _eq, y, x):
            fail("eq_rev", x, i, y)
        if _is_cirq_obj(x) and out["eq"]:
            ne = _sut(what + ":ne", lambda p, q: p != q, x, y)
            if isinstance(ne, (bool, np.bool_)) and bool(ne):
                fail("ne_false", x, i, y)
        hx, vx = _sut(what + ":hash", _try_hash, x)
        hy, vy = _sut(what + ":hash", _try_hash, y)
        if hx != hy:
            fail("hashable_same", x, i)
        if hx and hy:
            any_hashable = True
            if out["eq"] and vx != vy:
                fail("hash_eq", x, i, y)
            if out["eq"]:
                found = _sut(what + ":lookup", lambda p, q: ({q: 1}.get(p) == 1) and (p in {q}), x, y)
                if not found:
                    fail("lookup", x, i, y)
    if not whole_eq and out["eq"]:
        out["eq"] = False
        out["where"] = out["where"] or _tname(a)
    out["hashable"] = any_hashable
    return out


# ---------------------------------------------------------------------------------------------
# payload oracle: numpy / pandas payloads by dtype, shape and values (== is blind to dtype)
# ---------------------------------------------------------------------------------------------
import hashlib  # noqa: E402

_PAYLOAD_ATTRS = ("records", "measurements", "data")


def _array_desc(a: np.ndarray):
    try:
        listed = str(np.asarray(a.tolist()).dtype)       # what a document that stores a nested list reads back as
    except Exception:  # noqa: BLE001
        listed = str(a.dtype)
    if a.dtype.kind in "biufc":
        digest = hashlib.sha1(np.ascontiguousarray(a).astype(np.complex128).tobytes()).hexdigest()[:12]
    else:
        digest = hashlib.sha1(repr(a.tolist()).encode()).hexdigest()[:12]
    return ("ndarray", str(a.dtype), listed, tuple(a.shape), digest)


def payload_of(v, path="", depth=0, out=None):
    """[(path, descriptor)] for every numpy array and pandas object reachable through _json_dict_ trees,
    containers and the public array attributes of results (records, measurements, data)."""
    if out is None:
        out = []
    if depth > 40 or len(out) > 400:
        return out
    if isinstance(v, np.ndarray):
        out.append((path, _array_desc(v)))
    elif isinstance(v, pd.DataFrame):
        vals = v.to_numpy()
        out.append((path, ("frame", tuple(str(t) for t in v.dtypes), str(v.index.dtype),
                           tuple(str(c) for c in v.columns), tuple(v.shape),
                           hashlib.sha1(repr(vals.tolist()).encode()).hexdigest()[:12])))
    elif isinstance(v, pd.Index):
        out.append((path, ("index", str(v.dtype), len(v), hashlib.sha1(repr(list(v)).encode()).hexdigest()[:12])))
    elif isinstance(v, (list, tuple)):
        for i, x in enumerate(v):
            payload_of(x, f"{path}[{i}]", depth + 1, out)
    elif isinstance(v, dict):
        for i, x in enumerate(v.values()):
            payload_of(x, f"{path}{{{i}}}", depth + 1, out)
    elif _is_cirq_obj(v):
        for attr in _PAYLOAD_ATTRS:
            try:
                x = getattr(v, attr)
            except Exception:  # noqa: BLE001
                continue
            if isinstance(x, (dict, np.ndarray, pd.DataFrame)):
                payload_of(x, f"{path}<{_tname(v)}>.{attr}", depth + 1, out)
        try:
            attrs = vars(v)
        except TypeError:
            attrs = {}
        for k in sorted(attrs):
            # boolean flags of the instance (not caches): == may ignore them (ConstantQubitNoiseModel._prepend)
            if isinstance(attrs[k], bool) and "cache" not in k and not k.startswith("__"):
                out.append((f"{path}<{_tname(v)}>#{k}", ("flag", attrs[k])))
            elif isinstance(attrs[k], np.ndarray) and "cache" not in k:
                # arrays an instance stores but writes as nested lists (MatrixGate._matrix)
                out.append((f"{path}<{_tname(v)}>#{k}", _array_desc(attrs[k])))
        if hasattr(v, "_json_dict_"):
            try:
                d = v._json_dict_()
            except Exception:  # noqa: BLE001
                d = None
            if isinstance(d, dict):
                for k, x in d.items():
                    payload_of(x, f"{path}<{_tname(v)}>.{k}", depth + 1, out)
    return out


def payload_compare(got, ref, exact: bool) -> dict:
    """`got` (imported / copied / read from a document) against `ref` (source / paired repr).  exact: dtype must
    be identical (pickle, copy).  Otherwise a dtype may also be the one numpy gives the listed form of the
    reference array -- a JSON document that stores a nested list carries no dtype (complex64 -> complex128)."""
    out = {"same": True, "where": None, "detail": None, "n": len(ref)}
    # boolean flags: compared where both sides have them (a lazily set flag may be absent on one side)
    gflags = {p: d for p, d in got if d[0] == "flag"}
    for p, d in ref:
        if d[0] == "flag" and p in gflags and gflags[p] != d:
            out.update(same=False, where=p, detail=f"flag {d[1]} -> {gflags[p][1]}")
            return out
    got = [(p, d) for p, d in got if d[0] != "flag"]
    ref = [(p, d) for p, d in ref if d[0] != "flag"]
    out["n"] = len(ref)
    if [p for p, _ in got] != [p for p, _ in ref]:
        # Only places that hold a payload on both sides are compared.  JSON: a class may keep what it was given
        # as an array and read a plain list back (a field documented as list[float], e.g.
        # GoogleNoiseProperties.readout_errors).  Any transport: results compute .measurements / .data lazily
        # and may refuse (several instances per key), so one walk can see an attribute the other does not.
        gd = dict(got)
        pairs = [((p, gd[p]), (p, r)) for p, r in ref if p in gd]
        got, ref = [a for a, _ in pairs], [b for _, b in pairs]
        out["n"] = len(ref)
    for (path, g), (_, r) in zip(got, ref):
        if g[0] != r[0]:
            out.update(same=False, where=path, detail=f"{r[0]} -> {g[0]}")
            return out
        if g[0] == "ndarray":
            if g[3] != r[3]:
                out.update(same=False, where=path, detail=f"shape {r[3]} -> {g[3]}")
            elif g[4] != r[4]:
                out.update(same=False, where=path, detail="values differ")
            elif g[1] != r[1] and (exact or g[1] != r[2]):
                out.update(same=False, where=path, detail=f"dtype {r[1]} -> {g[1]}")
        elif g != r:
            out.update(same=False, where=path, detail=f"{r[:-1]} -> {g[:-1]}")
        if not out["same"]:
            return out
    return out


def _nqubits(v):
    try:
        return cirq.num_qubits(v)
    except TypeError:
        pass
    if isinstance(v, cirq.AbstractCircuit):
        return len(v.all_qubits())
    return None


def _behaviour_arrays(v):
    """cirq.unitary where defined, else cirq.kraus where defined; None when neither applies (<= 3 qubits)."""
    if not _is_cirq_obj(v):
        return None
    n = _nqubits(v)
    if n is None or n > 3:
        return None
    if cirq.is_parameterized(v):
        return None
    if cirq.has_unitary(v):
        u = cirq.unitary(v, None)
        return None if u is None else ("unitary", [np.asarray(u)])
    if not isinstance(v, cirq.AbstractCircuit) and cirq.has_kraus(v):
        k = cirq.kraus(v, None)
        return None if k is None else ("kraus", [np.asarray(x) for x in k])
    return None


def _behaviour_safe(v):
    try:
        return _behaviour_arrays(v)
    except Exception as e:  # noqa: BLE001 - compared between the two values, not judged on its own
        return ("raised", [type(e).__name__])


def behaviour_equal(a, b, what: str) -> dict:
    """unitary / kraus of `a` equal those of `b` entry for entry, exactly."""
    out = {"applies": False, "same": True, "kind": None, "where": None}
    for x, y in _elements(a, b):
        ra = _behaviour_safe(x)
        rb = _behaviour_safe(y)
        if ra is None and rb is None:
            continue
        if ra is not None and rb is not None and ra[0] == "raised" and rb[0] == "raised" and ra[1] == rb[1]:
            continue  # neither value has this behaviour; nothing to compare
        out["applies"] = True
        # exact numerical equality of every matrix entry (no tolerance).  The dtype is not part of the
        # behaviour: a stored document may hold `1` where the constructor call in the paired .repr holds
        # `1.0`, and -0.0 == 0.0.
        ok = (ra is not None and rb is not None and ra[0] == rb[0] and len(ra[1]) == len(rb[1]) and all(
            p.shape == q.shape and np.array_equal(p, q) for p, q in zip(ra[1], rb[1])))
        if not ok and ra is not None and rb is not None and ra[0] == rb[0] and len(ra[1]) == len(rb[1]):
            # Exactness is demanded of values that store the same numbers the same way.  A document that keeps a
            # matrix as a nested list carries no dtype, so a complex64 / float32 payload is read back wider
            # (accepted by the payload oracle); whatever Cirq then *computes* from it (an inverse through an
            # eigendecomposition, a product) differs in the last digits of the narrower type.  Only then a
            # tolerance applies: 64 ulp of the narrowest floating dtype stored in either value, times the dimension.
            tol = _narrowing_tolerance(x, y)
            if tol is not None:
                ok = all(p.shape == q.shape and np.allclose(p, q, rtol=0, atol=tol * max(p.shape or (1,)))
                         for p, q in zip(ra[1], rb[1]))
                if ok:
                    out["widened"] = True
        out["kind"] = (ra or rb)[0]
        if not ok and out["same"]:
            out["same"] = False
            out["where"] = _locate_behaviour(x, y)
    return out


def _narrowing_tolerance(x, y):
    """None if the two values store their arrays with the same dtypes; else 64 ulp of the narrowest floating
    dtype stored in either."""
    dx = [d[1] for _, d in payload_of(x) if d[0] == "ndarray"]
    dy = [d[1] for _, d in payload_of(y) if d[0] == "ndarray"]
    if dx == dy:
        return None
    eps = []
    for name in dx + dy:
        dt = np.dtype(name)
        if dt.kind in "fc":
            eps.append(float(np.finfo(dt).eps))
    if not eps:
        return None
    return 64 * max(eps)


def _same_behaviour(x, y):
    ra, rb = _behaviour_safe(x), _behaviour_safe(y)
    if ra is None or rb is None or ra[0] == "raised" or rb[0] == "raised":
        return None
    return ra[0] == rb[0] and len(ra[1]) == len(rb[1]) and all(
        p.shape == q.shape and np.array_equal(p, q) for p, q in zip(ra[1], rb[1]))


def _locate_behaviour(a, b, depth=0) -> str:
    """Innermost component (walking the _json_dict_ trees in parallel) whose unitary / kraus differs."""
    kids = _children(a, b) if depth < 60 else None
    stack = list(kids or [])
    while stack:
        _, x, y = stack.pop(0)
        if _is_cirq_obj(x) and type(x) == type(y):  # noqa: E721
            if _same_behaviour(x, y) is False:
                return _locate_behaviour(x, y, depth + 1)
        elif isinstance(x, (list, tuple, dict)):
            sub = _children(x, y)
            if sub:
                stack.extend(sub)
    return _tname(a)


# ---------------------------------------------------------------------------------------------
# transports
# ---------------------------------------------------------------------------------------------
def _export(v, transport: str) -> bytes:
    if transport == "json":
        return _sut("export:json", cirq.to_json, v).encode("utf-8")
    if transport == "gzip":
        return _sut("export:gzip", cirq.to_json_gzip, v)
    if transport.startswith("pickle"):
        return pickle.dumps(v, protocol=int(transport[6:]))
    if transport == "repr":
        return _sut("export:repr", repr, v).encode("utf-8")
    raise ValueError(transport)


def _import(payload: bytes, transport: str):
    if transport == "json":
        return _sut("import:json", lambda: cirq.read_json(json_text=payload.decode("utf-8")))
    if transport == "gzip":
        return _sut("import:gzip", lambda: cirq.read_json_gzip(gzip_raw=payload))
    if transport.startswith("pickle"):
        return _sut("import:" + transport, pickle.loads, payload)
    if transport == "repr":
        return eval(payload.decode("utf-8"), dict(EVAL_GLOBALS), {})
    raise ValueError(transport)


def _cirq_local_function_in(v, depth=0, seen=None):
    """Qualified name of a function defined inside a Cirq function/method (`X.__init__.<locals>.<lambda>`) that is
    stored on the value or on something it holds; None if there is none."""
    import types
    if seen is None:
        seen = set()
    if id(v) in seen or depth > 6:
        return None
    seen.add(id(v))
    if isinstance(v, types.FunctionType):
        if "<locals>" in v.__qualname__ and str(v.__module__).split(".")[0] in (
                "cirq", "cirq_google", "cirq_ionq", "cirq_aqt", "cirq_pasqal"):
            return v.__qualname__
        return None
    if isinstance(v, (list, tuple, set, frozenset)):
        items = list(v)
    elif isinstance(v, dict):
        items = list(v.values())
    elif _is_cirq_obj(v):
        try:
            items = list(vars(v).values())
        except TypeError:
            items = []
    else:
        return None
    for x in items:
        r = _cirq_local_function_in(x, depth + 1, seen)
        if r is not None:
            return r
    return None


def _unsupported_or_failure(op: str, e: Exception, recipe, redo):
    """Pickling and copying are promised to give *equal* values, not promised to exist for every class
    (some hold lambdas).  An exception is a finding when it is raised by Cirq's own hooks (innermost frame
    in the tree under test) or when a freshly built value of the same recipe does not raise (then the failure
    is caused by the history of the held value).  Otherwise the class is recorded as unsupported."""
    rec = _failure_record(op, e)
    if rec["innermost_in_repo"]:
        raise SutFailure(rec)
    try:
        fresh = build_value(recipe)
        redo(fresh)
    except Exception:  # noqa: BLE001
        culprit = _cirq_local_function_in(fresh)
        if culprit is not None:
            # not a user's lambda: the class itself stores a function it defined locally on every instance
            rec["exc_msg"] = f"instance holds the local function {culprit} defined by Cirq: " + rec["exc_msg"]
            rec["site"] = "local-function:" + culprit
            raise SutFailure(rec) from None
        return {"unsupported": True, "exc_type": rec["exc_type"]}
    rec["history_dependent"] = True
    raise SutFailure(rec)


# ---------------------------------------------------------------------------------------------
# operations
# ---------------------------------------------------------------------------------------------
def op_hello(req):
    return {"hashseed": os.environ.get("PYTHONHASHSEED"), "pid": os.getpid(), "cirq": cirq.__version__,
            "cirq_file": os.path.realpath(cirq.__file__), "root": ROOT}


def op_reset(req):
    HELD.clear()
    gc.collect()
    return {}


def op_drop(req):
    HELD.pop(req["slot"], None)
    return {}


def _describe(v) -> dict:
    return {"type": _tname(v), "cirq_top": _cirq_top(v), "is_qid": isinstance(v, cirq.Qid),
            "n": len(v) if isinstance(v, (list, tuple)) else None, "family": derive_family(v)}


def op_build(req):
    try:
        v = Builder(validate=True).build(req["recipe"])
    except Rejected as r:
        return {"rejected": True, "exc_type": str(r)}
    HELD[req["slot"]] = v
    out = _describe(v)
    out["rejected"] = False
    return out


def op_twin(req):
    """Two recipes that spell the same value differently (1 / 1.0, 0.0 / -0.0, another array dtype, a dict written
    in another order): IF the two values are ==, they must hash alike and find each other in a dict."""
    a = build_value(req["recipe_a"])
    try:
        b = Builder(validate=False).build(req["recipe_b"])
    except Rejected as r:
        return {"rejected": True, "why": str(r)}
    except Exception as e:  # noqa: BLE001 - the other spelling is not accepted (3.0 qubits): nothing to compare
        return {"rejected": True, "why": type(e).__name__}
    try:
        eq = _eq(a, b) and _eq(b, a)
    except Exception as e:  # noqa: BLE001
        if type(a) is type(b) and _is_cirq_obj(a):
            # == between two values of one class must answer, whatever their sizes
            rec = _failure_record("twin:eq", e)
            rec["subject"] = _tname(a)
            raise SutFailure(rec) from None
        return {"rejected": True, "why": "eq-raises:" + type(e).__name__}
    out = {"rejected": False, "eq": bool(eq), "hash_eq": True, "lookup": True, "where": None, "hashable": False}
    if not eq:
        return out
    for x, y in _elements(a, b):
        hx, vx = _sut("twin:hash", _try_hash, x)
        hy, vy = _sut("twin:hash", _try_hash, y)
        if not (hx and hy):
            continue
        out["hashable"] = True
        if vx != vy:
            out["hash_eq"] = False
            out["where"] = _tname(x)     # (the two spellings may order their parts differently: no parallel walk)
            break
        if {y: 1}.get(x) != 1:
            out["lookup"] = False
            out["where"] = _tname(x)
            break
    return out


def _same_document(a, b) -> bool:
    try:
        ta = cirq.to_json(a)
    except Exception:  # noqa: BLE001
        ta = None
    try:
        tb = cirq.to_json(b)
    except Exception:  # noqa: BLE001
        tb = None
    return ta == tb


def op_derive(req):
    """A value derived from a held (possibly cache-touched, imported, copied) value must equal -- and hash like,
    and be found by -- the same derivation of a freshly built, untouched equal value."""
    v = HELD[req["slot"]]
    method, args = req["method"], req["args"]
    if req.get("in_place"):
        # An in-place update also changes every other held value that shares the object -- a shallow copy of
        # a list holds the very same tableaux -- and those would silently stop being what their recipes say.
        # Such a derivation is only done on a value nothing else held refers to.
        def parts(x):
            ids = {id(x)}
            if isinstance(x, (list, tuple)):
                ids.update(id(e) for e in x)
            elif isinstance(x, dict):
                ids.update(id(e) for e in x.values())
            return ids
        mine = parts(v)
        mutable = {i for i in mine if i != id(v) or not isinstance(v, (list, tuple, dict))}
        for s_, other in HELD.items():
            if s_ != req["slot"] and (parts(other) & mutable):
                return {"na": True, "why": "aliased"}
    fresh = build_value(req["recipe"])
    try:
        ref = derive(fresh, method, args)
    except NotApplicable:
        return {"na": True, "why": "not-applicable"}
    except Exception as e:  # noqa: BLE001 - the method refuses this value (not invertible, ...): nothing derived
        return {"na": True, "why": "refused:" + type(e).__name__}
    try:
        d = derive(v, method, args)
    except Exception as e:  # noqa: BLE001
        rec = _failure_record("derive:" + method, e)
        rec["history_dependent"] = True
        raise SutFailure(rec) from None
    HELD[req["new_slot"]] = d
    out = _describe(d)
    out["na"] = False
    # The fresh value stands for the held one only if both write the same document: a held value that came
    # through a repr hop may be ==-equal to its recipe and still differ in something == ignores (WaitGate's
    # qid_shape), and then the derived values differ for a reason that is not a cached state.
    # ... nor if the two store their arrays with different dtypes: a complex64 MatrixGate that came through a
    # nested-list JSON document is complex128 now (accepted widening), and a derivation that computes in the
    # stored precision (inverse / ** by eigendecomposition) then differs in the last digits while
    # MatrixGate.__eq__ is exact.
    same_storage = [d[1] for _, d in payload_of(v) if d[0] == "ndarray"] == \
                   [d[1] for _, d in payload_of(fresh) if d[0] == "ndarray"]
    out["same_storage"] = same_storage
    out["comparable"] = same_storage and _same_document(v, fresh)
    out["verdict"] = compare(d, ref, "derive:" + method) if out["comparable"] else None
    return out


def _touch_one(v, kind: str):
    if kind == "hash":
        ok, _ = _sut("touch:hash", _try_hash, v)
        if not ok and isinstance(v, (list, tuple)):
            for x in v:
                _sut("touch:hash", _try_hash, x)
        return "ok" if ok else "unhashable"
    if kind == "repr":
        _sut("touch:repr", repr, v)
        return "ok"
    if kind == "eq":
        return "ok" if _sut("touch:eq", _eq, v, v) else "self-unequal"
    if kind == "json_dict":
        vs = v if isinstance(v, (list, tuple)) else [v]
        n = 0
        for x in vs:
            f = getattr(x, "_json_dict_", None)
            if f is not None and _is_cirq_obj(x):
                _sut("touch:json_dict", f)
                n += 1
        return "ok" if n else "na"
    if kind == "unitary":
        vs = v if isinstance(v, (list, tuple)) else [v]
        n = 0
        for x in vs:
            r = _behaviour_safe(x)
            if r is not None and r[0] != "raised":
                n += 1
        return "ok" if n else "na"
    if kind == "sorted":
        vs = v if isinstance(v, (list, tuple)) else [v]
        n = 0
        for x in vs:
            if isinstance(x, cirq.Qid):
                _sut("touch:sorted", lambda q: sorted([q]), x)
            elif isinstance(x, cirq.AbstractCircuit):
                _sut("touch:sorted", lambda c: sorted(c.all_qubits()), x)
            elif isinstance(x, (cirq.Operation, cirq.Moment, cirq.PauliString)):
                _sut("touch:sorted", lambda o: sorted(o.qubits), x)     # (.qubits of a CircuitOperation sorts too)
            else:
                continue
            n += 1
        return "ok" if n else "na"
    if kind == "protocols":
        vs = v if isinstance(v, (list, tuple)) else [v]
        n = 0
        for x in vs:
            if not _is_cirq_obj(x):
                continue
            n += 1
            # these protocols have defaults for values that do not support them; they fill the
            # per-instance caches of Moment / TaggedOperation / GateOperation / FrozenCircuit
            cirq.is_parameterized(x)
            cirq.parameter_names(x)
            cirq.is_measurement(x)
            try:
                cirq.measurement_key_names(x)
                cirq.control_keys(x)
                cirq.qid_shape(x, None)
                cirq.has_unitary(x)
            except Exception:  # noqa: BLE001 - not part of the property
                pass
        return "ok" if n else "na"
    raise ValueError(kind)


def op_touch(req):
    v = HELD[req["slot"]]
    return {"results": [_touch_one(v, k) for k in req["kinds"]]}


def op_copy(req):
    v = HELD[req["slot"]]
    fn = copy.deepcopy if req["deep"] else copy.copy
    opname = "deepcopy" if req["deep"] else "copy"
    try:
        w = fn(v)
    except Exception as e:  # noqa: BLE001
        return _unsupported_or_failure(opname, e, req["recipe"], fn)
    HELD[req["new_slot"]] = w
    return {"unsupported": False, "verdict": compare(w, v, opname),
            "payload": payload_compare(payload_of(w), payload_of(v), exact=True)}


def op_export(req):
    v = HELD[req["slot"]]
    t = req["transport"]
    if t.startswith("pickle"):
        try:
            payload = _export(v, t)
        except Exception as e:  # noqa: BLE001
            return _unsupported_or_failure("export:" + t, e, req["recipe"], lambda x: _export(x, t))
    else:
        payload = _export(v, t)
    info = {"unsupported": False, "payload": payload}
    if t != "repr":
        info["payload_desc"] = payload_of(v)       # what the receiver's payloads are compared with
    if t in ("json", "gzip"):
        text = payload if t == "json" else gzip.decompress(payload)
        info["has_ref"] = b'"cirq_type": "REF"' in text
    return info


def op_import(req):
    t = req["transport"]
    payload = req["payload"]
    fresh = build_value(req["recipe"])
    if t == "repr":
        try:
            v = _import(payload, t)
        except Exception as e:  # noqa: BLE001
            # Many classes print representations that need names the repository's own test globals do
            # not provide; that is not held against them.  It is a finding only if the representation
            # of a freshly built equal value *does* evaluate here (then the shipped text is at fault).
            if isinstance(e, AttributeError) and str(e).startswith("module 'cirq"):
                # the representation names something a Cirq package does not have (cirq_google.ZipLongest):
                # no choice of evaluation globals can help that
                rec = _failure_record("import:repr", e)
                rec["subject"] = _tname(fresh)
                raise SutFailure(rec) from None
            try:
                eval(repr(fresh), dict(EVAL_GLOBALS), {})
            except Exception:  # noqa: BLE001
                return {"unsupported": True, "exc_type": type(e).__name__}
            rec = _failure_record("import:repr", e)
            rec["history_dependent"] = True
            raise SutFailure(rec) from None
    else:
        v = _import(payload, t)
    HELD[req["slot"]] = v
    out = {"unsupported": False, "type": _tname(v), "family": derive_family(v),
           "verdict": compare(v, fresh, "import:" + t), "behaviour": None, "idempotent": None, "payload": None}
    if req.get("src_payload") is not None:
        # numpy / pandas payloads against those of the very value that was exported
        out["payload"] = payload_compare(payload_of(v), req["src_payload"], exact=t.startswith("pickle"))
    if t in ("json", "gzip"):
        text = payload if t == "json" else gzip.decompress(payload)
        again = _sut("import:" + t + ":re-export", cirq.to_json, v).encode("utf-8")
        out["idempotent"] = (again == text)
        # "Equal behaviour" is promised for what JSON reads back from the document written from the
        # original.  The locally rebuilt value stands for the original only if it writes this very document:
        # a value that came here through earlier hops may be ==-equal to its recipe and yet differ from it
        # in something == does not look at (a repr that omits a parameter which equality ignores, an int
        # where the recipe has a float) -- that is not something this JSON hop did.
        fresh_text = _sut("import:" + t + ":reference-export", cirq.to_json, fresh).encode("utf-8")
        if fresh_text == text:
            out["behaviour"] = behaviour_equal(v, fresh, "import:" + t)
    return out


def op_report(req):
    """Equality classes among held values, and whether equal values hash alike and find each other."""
    slots = list(req["slots"])
    vals = [HELD[s] for s in slots]
    cls = list(range(len(vals)))
    bad_hash, bad_lookup, asym, eq_raises = [], [], [], []
    for i in range(len(vals)):
        for j in range(i + 1, len(vals)):
            a, b = vals[i], vals[j]
            try:
                e1, e2 = _eq(a, b), _eq(b, a)
            except Exception as e:  # noqa: BLE001 - unrelated types need not be comparable
                if type(a) is type(b) and _is_cirq_obj(a):
                    eq_raises.append((slots[i], slots[j], _tname(a), type(e).__name__))
                continue
            if e1 != e2:
                asym.append((slots[i], slots[j], _tname(a), _tname(b)))
            if e1 and e2:
                root = min(cls[i], cls[j])
                old = max(cls[i], cls[j])
                cls = [root if c == old else c for c in cls]
                for x, y in _elements(a, b):
                    hx, vx = _try_hash(x)
                    hy, vy = _try_hash(y)
                    if hx and hy:
                        if vx != vy:
                            bad_hash.append((slots[i], slots[j], locate_hash_differs(x, y)))
                        elif {y: 1}.get(x) != 1:
                            bad_lookup.append((slots[i], slots[j], _tname(x)))
    return {"types": [_tname(v) for v in vals], "classes": cls, "bad_hash": bad_hash,
            "bad_lookup": bad_lookup, "asymmetric": asym, "eq_raises": eq_raises}


def op_sort_qids(req):
    qs = [build_value(r) for r in req["recipes"]]
    n = len(qs)
    bad = []
    bad_types = []

    def cmp(op, f, a, b):
        try:
            return bool(f(a, b))
        except Exception as e:  # noqa: BLE001
            bad.append(f"{op} raised {type(e).__name__} for {_tname(a)} vs {_tname(b)}")
            bad_types.append(sorted((_tname(a), _tname(b))))
            return None

    for i in range(n):
        for j in range(n):
            if i == j:
                continue
            a, b = qs[i], qs[j]
            lt = cmp("<", lambda x, y: x < y, a, b)
            gt = cmp(">", lambda x, y: x > y, a, b)
            le = cmp("<=", lambda x, y: x <= y, a, b)
            ge = cmp(">=", lambda x, y: x >= y, a, b)
            eq = cmp("==", lambda x, y: x == y, a, b)
            rl = cmp("<", lambda x, y: x < y, b, a)
            if None in (lt, gt, le, ge, eq, rl):
                continue
            n_before = len(bad)
            if lt + eq + rl != 1:
                bad.append(f"not total/consistent with ==: {i} vs {j} ({_tname(a)}, {_tname(b)}): "
                           f"a<b={lt} a==b={eq} b<a={rl}")
            if gt != rl:
                bad.append(f"a>b differs from b<a: {i} vs {j} ({_tname(a)}, {_tname(b)})")
            if le != (lt or eq) or ge != (gt or eq):
                bad.append(f"<=/>= inconsistent with </==: {i} vs {j} ({_tname(a)}, {_tname(b)})")
            if eq and hash(a) != hash(b):
                bad.append(f"equal qids hash differently: {i} vs {j} ({_tname(a)}, {_tname(b)})")
            if len(bad) > n_before:
                bad_types.append(sorted((_tname(a), _tname(b))))
    perm = None
    try:
        perm = sorted(range(n), key=lambda i: qs[i])
    except Exception as e:  # noqa: BLE001
        bad.append(f"sorted() raised {type(e).__name__}: {str(e)[:120]}")
    if perm is not None:
        for x in range(n):
            for y in range(x + 1, n):
                try:
                    if qs[perm[y]] < qs[perm[x]]:
                        bad.append(f"sorted() output is not ordered: positions {x},{y}")
                except Exception:  # noqa: BLE001
                    pass
    return {"perm": perm, "bad": bad[:6], "bad_types": bad_types[:1], "types": [_tname(q) for q in qs]}


def op_corpus_read(req):
    """The repository's own test (assert_repr_and_json_test_data_agree) on this node."""
    pkg, name, inward = req["pkg"], req["name"], req["inward"]
    base = os.path.join(ROOT, CORPUS_DIRS[pkg], name)
    jpath, rpath = base + (".json_inward" if inward else ".json"), base + (".repr_inward" if inward else ".repr")
    with open(jpath) as f:
        jtext = f.read()
    with open(rpath) as f:
        rtext = f.read()
    jobj = _sut("corpus:read_json", lambda: cirq.read_json(json_text=jtext))
    _import_named_contrib_modules(rtext)
    robj = _sut("corpus:eval-repr", eval, rtext, dict(EVAL_GLOBALS), {})
    out = {"eq": _sut("corpus:eq", _eq, jobj, robj), "outward": None, "type": _tname(jobj),
           "family": derive_family(jobj), "cirq_top": _cirq_top(jobj)}
    # (arrays an instance stores privately and writes as nested lists -- MatrixGate._matrix -- are left out
    # here: a stored document and its paired repr may spell the same matrix with different literals, 0.7071... vs
    # np.sqrt(0.5), which == compares with a tolerance; they are compared on hops, against the exported value)
    def public(desc):
        return [(p_, d_) for p_, d_ in desc if not (d_[0] == "ndarray" and "#" in p_.rsplit(">", 1)[-1])]
    out["payload"] = payload_compare(public(payload_of(jobj)), public(payload_of(robj)), exact=False)
    if not inward:
        again = _sut("corpus:to_json", cirq.to_json, robj)
        out["outward"] = (json.loads(again) == json.loads(jtext))
    if req.get("slot") is not None:
        HELD[req["slot"]] = jobj
    return out


OPS = {"hello": op_hello, "reset": op_reset, "drop": op_drop, "build": op_build, "derive": op_derive,
       "touch": op_touch, "twin": op_twin,
       "copy": op_copy, "export": op_export, "import": op_import, "report": op_report,
       "sort_qids": op_sort_qids, "corpus_read": op_corpus_read}


def _read_exact(n: int) -> bytes:
    buf = b""
    while len(buf) < n:
        chunk = FIN.read(n - len(buf))
        if not chunk:
            raise EOFError
        buf += chunk
    return buf


def serve():
    while True:
        try:
            head = _read_exact(4)
        except (EOFError, OSError):
            return
        (n,) = struct.unpack(">I", head)
        try:
            req = pickle.loads(_read_exact(n))
        except (EOFError, OSError):
            return
        if req.get("op") == "exit":
            return
        if req.get("op") == "zygote":
            # this freshly forked, unused interpreter becomes the fork server of one worker process
            data = pickle.dumps({"status": "ok", "pid": os.getpid()}, protocol=4)
            FOUT.write(struct.pack(">I", len(data)) + data)
            FOUT.flush()
            zygote(req["path"], control=FIN)
            return
        try:
            resp = OPS[req["op"]](req)
            resp["status"] = "ok"
        except SutFailure as sf:
            resp = {"status": "sut", "failure": sf.record}
        except Exception as e:  # noqa: BLE001 - a defect of this file (or of a recipe): harness error
            resp = {"status": "error", "tb": "".join(traceback.format_exception(type(e), e, e.__traceback__))[-4000:]}
        data = pickle.dumps(resp, protocol=4)
        try:
            FOUT.write(struct.pack(">I", len(data)) + data)
            FOUT.flush()
        except OSError:
            return


def zygote(path: str, control=None) -> None:
    """Fork server.  This interpreter -- started as `/venv/bin/python node_main.py --zygote <socket>` with the
    PYTHONHASHSEED the coordinator chose -- has imported the five packages and done nothing else.  Every
    connection to <socket> is answered by fork(): the child *is* a node (an interpreter with this hash seed
    whose state is exactly "just imported Cirq"), serves frames on that connection and exits when it is
    closed or when it is killed.  A node start therefore costs a fork (tens of ms) instead of a cold import
    (3-5 s, 10+ s on a busy machine), which is what lets every run have nodes nobody used before.

    Forks of one process are serial, and fourteen workers want several per run; so each worker asks the
    per-seed zygote once for a fork that *itself* becomes a zygote (op "zygote": `control` is the worker's
    connection; when it closes, this process exits) and takes its nodes from there."""
    global FIN, FOUT
    import select
    import signal
    import socket
    signal.signal(signal.SIGCHLD, signal.SIG_IGN)      # children are reaped by the kernel
    srv = socket.socket(socket.AF_UNIX, socket.SOCK_STREAM)
    srv.bind(path)
    srv.listen(128)
    while True:
        if control is not None:
            try:
                r, _, _ = select.select([srv, control], [], [])
            except InterruptedError:
                continue
            if control in r:
                os._exit(0)                             # the worker is gone (or said anything at all)
        try:
            conn, _ = srv.accept()
        except InterruptedError:
            continue
        pid = os.fork()
        if pid == 0:
            try:
                srv.close()
                if control is not None:
                    control.close()
                _die_with_parent()                      # a node does not outlive its zygote
                FIN = conn.makefile("rb")
                FOUT = conn.makefile("wb")
                serve()
            finally:
                os._exit(0)
        conn.close()


if __name__ == "__main__":
    # everything imported so far lives for the life of the process: take it out of the collector's sight,
    # so that the gc.collect() of every `reset` only has to look at what runs created
    gc.collect()
    gc.freeze()
    if ZYGOTE_SOCKET is not None:
        zygote(ZYGOTE_SOCKET)
    else:
        serve()
