#!/venv/bin/python
"""import_seed.py <worktree> <n> : verify a seeded change (demo fails with it, passes without it) in its
scratch worktree and copy it to /verif/seeded/<property>_<n>/ with what was run recorded in meta.json."""
import json, os, shutil, subprocess, sys

wt, n = sys.argv[1], sys.argv[2]
src = os.path.join(wt, "out", n)
meta = json.load(open(os.path.join(src, "meta.json")))
prop = meta["property"]
demo = next(f for f in sorted(os.listdir(src)) if f.startswith("demo"))
def sh(cmd, **kw):
    return subprocess.run(cmd, cwd=wt, capture_output=True, text=True, timeout=900, **kw)
assert sh(["git", "status", "--porcelain", "--untracked-files=no"]).stdout.strip() == "", "worktree not clean"
r = sh(["git", "apply", "--check", os.path.join(src, "patch.diff")]); assert r.returncode == 0, r.stderr
sh(["git", "apply", os.path.join(src, "patch.diff")])
with_patch = sh(["/venv/bin/python", os.path.join(src, demo)])
sh(["git", "checkout", "--", "."])
without = sh(["/venv/bin/python", os.path.join(src, demo)])
ok = with_patch.returncode != 0 and without.returncode == 0
print(f"{prop} #{n}: demo with patch rc={with_patch.returncode}, without rc={without.returncode} -> {'OK' if ok else 'REJECT'}")
if not ok:
    print(with_patch.stdout[-800:], with_patch.stderr[-800:], without.stdout[-500:], without.stderr[-800:])
    sys.exit(1)
dst = os.path.join(os.path.dirname(os.path.dirname(os.path.abspath(__file__))), "seeded", f"{prop}_{n}")
os.makedirs(dst, exist_ok=True)
shutil.copy(os.path.join(src, "patch.diff"), dst)
shutil.copy(os.path.join(src, demo), dst)
meta["verified_by_builder"] = {
    "demo_with_patch_rc": with_patch.returncode, "demo_without_patch_rc": without.returncode,
    "demo_failure_tail": (with_patch.stdout + with_patch.stderr)[-400:],
    "how": f"git apply in scratch worktree {wt}; /venv/bin/python {demo}; git checkout -- .; /venv/bin/python {demo}",
    "tests_run_by_author": meta.get("tests_run"),
}
meta["origin"] = "written by an independent sub-agent that saw only the property text and a scratch worktree"
json.dump(meta, open(os.path.join(dst, "meta.json"), "w"), indent=1)
print("copied to", dst)
