"""C11 -- JSON round-trips every value and keeps reading old documents (engine E6, interpreter cluster).

One run = one tape-decided history of value exchange between 2-4 *separate interpreter processes* with
different PYTHONHASHSEED: build values from recipes, touch their per-instance caches in a tape-chosen order,
copy them, export them (JSON text, gzip JSON, pickle protocols 2-5, repr text), carry the bytes to other
nodes (second and third hops included), kill and restart nodes in between, read stored corpus documents on
nodes that have already imported other things -- with the oracles of DESIGN.md §4 C11 evaluated at every
import, copy, report and corpus read.
"""
from __future__ import annotations

import hashlib
import json
import os
from typing import Dict, List, Optional

from simkit import repoenv
from simkit.core import Check, Ctx, HarnessError, Violation

P = "C11"
TRANSPORTS = ("json", "pickle5", "gzip", "pickle2", "repr", "pickle4", "pickle3")
TRANSPORT_WEIGHTS = (8, 6, 3, 4, 6, 2, 2)
TOUCH_KINDS = ("hash", "repr", "eq", "json_dict", "unitary", "sorted", "protocols")
MAX_HELD = 8
MAX_MESSAGES = 16

CORPUS_PACKAGES = (("cirq", "cirq.protocols"), ("cirq_google", "cirq_google"), ("cirq_ionq", "cirq_ionq"),
                   ("cirq_aqt", "cirq_aqt"), ("cirq_pasqal", "cirq_pasqal"), ("cirq.contrib", "cirq.contrib"))


# derivations offered per kind of value (engines/node_main.py: derive_family / _derive_one)
DERIVATIONS = {
    "circuit": ("with_tags", "freeze", "unfreeze", "untagged", "key_mapping", "key_path_prefix",
                "transform_qubits", "resolve", "inverse"),
    "circuitop": ("with_tags", "repeat", "with_params", "replace", "key_mapping", "key_path_prefix",
                  "transform_qubits", "with_qubits", "untagged", "resolve", "inverse", "controlled_by"),
    "op": ("with_tags", "with_qubits", "controlled_by", "inverse", "pow", "transform_qubits", "untagged",
           "key_mapping", "key_path_prefix", "resolve", "with_classical_controls"),
    "moment": ("with_operation", "with_tags", "transform_qubits", "key_mapping", "key_path_prefix", "resolve",
               "inverse"),
    "gate": ("on", "controlled_by", "inverse", "pow", "resolve"),
    "mkey": ("key_path_prefix",),
    "qid": ("with_dimension",),
    "other": ("resolve", "key_mapping", "key_path_prefix", "inverse"),
    "tableau": ("tableau_apply",),
}
IN_PLACE_DERIVATIONS = ("tableau_apply",)       # the held object itself is updated

# Violations of the unmodified tree that are reported to the coordinator but not yet repaired or recorded: their
# oracles run, a hit is counted as probe "pending:<fingerprint>" and ends the run quietly instead of raising.
# Matching is by fingerprint prefix.  VERIF_C11_SHOW_PENDING=1 turns them back into violations.
PENDING: tuple = ()      # nothing is masked: each defect this mechanism once held back is repaired in /repo or
                         # recorded in known_findings.json (DESIGN 8.2)
RECIPE_SOURCE_WEIGHTS = ((6, 1, 1), (4, 2, 3), (2, 2, 5))     # generated / stored example / mutated stored example


# stored documents whose numpy payloads differ from those of the paired repr on the pristine tree
# (cef4521), measured over the whole corpus: named here, never silently skipped
CORPUS_PAYLOAD_DISAGREES_AT_HEAD = {
    ("cirq", "KrausChannel", False): "KrausChannel.json spells the Kraus matrices of its second entry with integer "
                                     "literals (reads as int64), the paired .repr builds them with dtype=np.float64",
}


def _family(transport: str) -> str:
    if transport.startswith("pickle"):
        return "pickle"
    if transport == "gzip":
        return "json"
    return transport


class _Held:
    __slots__ = ("rid", "via", "hops", "touched", "procs", "hash_cached", "family")

    def __init__(self, rid, via, hops, procs, hash_cached=False, family="none"):
        self.rid = rid
        self.family = family
        self.via = via            # "build" | "copy" | "deepcopy" | "corpus" | transport name
        self.hops = hops
        self.touched = set()
        self.procs = procs        # tuple of (node index, generation) the value has lived in
        self.hash_cached = hash_cached


class _LNode:
    """A logical node of the run; `gen` counts real restarts (each one is a new process, new hash seed)."""

    def __init__(self, idx, seed, proc):
        self.idx = idx
        self.seed = seed
        self.proc = proc
        self.gen = 0
        self.held: Dict[int, _Held] = {}
        self.next_slot = 0
        self.imports = 0

    def new_slot(self) -> int:
        self.next_slot += 1
        return self.next_slot


class _Run:
    def __init__(self, check: "C11", tape, ctx: Ctx):
        from engines import cluster
        self.cluster = cluster
        self.pool = cluster.pool()
        self.check = check
        self.t = tape
        self.ctx = ctx
        self.nodes: List[_LNode] = []
        self.recipes: List[dict] = []
        self.messages: List[dict] = []
        self.restarts_left = 0
        self.sort_perms: Dict[int, list] = {}
        self.sample_ops: List[str] = []

    # -- plumbing ----------------------------------------------------------------------------------
    def close(self) -> None:
        for n in self.nodes:
            if n.proc is not None:
                self.pool.release(n.proc)
                n.proc = None

    def call(self, node: _LNode, req: dict, what: str, vtype: Optional[str] = None) -> dict:
        try:
            resp = node.proc.call(req)
        except self.cluster.NodeDied as e:
            if e.sut_traceback:
                raise Violation(f"{P}-SUT-EXCEPTION", f"node {node.idx} died during {what} with a Python traceback "
                                f"ending in the tree under test:\n{e.stderr_tail[-1500:]}",
                                fingerprint=f"{P}-SUT-EXCEPTION:node-death:{what}") from None
            raise
        if resp["status"] == "sut":
            self.sut_failure(node, resp["failure"], what, vtype)
        return resp

    def sut_failure(self, node: _LNode, f: dict, what: str, vtype: Optional[str] = None):
        op = f["op"]
        site = f.get("site") or "outside-the-tree"
        cls = f"{P}-CORPUS" if op.startswith("corpus") else f"{P}-SUT-EXCEPTION"
        hist = " (only after the value's history: a freshly built equal value does not fail)" \
            if f.get("history_dependent") else ""
        self.ctx.event("sut-exception", what, op, f["exc_type"], site)
        parts = op.split(":")
        if site.startswith("local-function:"):
            cls = f"{P}-COPY"
        if parts[0] in ("copy", "deepcopy"):
            fam = "copy"
        elif parts[0] == "corpus":
            fam = what.split(" ")[-1]          # corpus read <pkg>/<name>
        elif parts[0] == "touch":
            fam = op
        else:
            fam = _family(parts[1]) if len(parts) > 1 else parts[0]
        subject = f.get("subject")
        if subject and not subject.startswith("builtins."):
            vtype = subject
        if parts[-1] in ("eq", "ne", "hash", "lookup") and parts[0] != "touch":
            fam = parts[-1]        # == / hash itself raises: one fingerprint whatever transport brought the value
        # the site names the defect, unless it is shared machinery (value equality, cached_method, the
        # encoder): then the class of the value is what tells one defect from another
        generic = any(g in site for g in ("value/value_equality_attr.py", "cirq/_compat.py",
                                          "protocols/json_serialization.py", "outside-the-tree"))
        import re as _re
        m = _re.match(r"module '[\w.]+' has no attribute '(\w+)'", f["exc_msg"])
        if m:
            vtype = m.group(1)          # the name the representation uses, wherever the value was nested
        if generic:
            words = _re.sub(r"'[^']*'|\"[^\"]*\"", "", f["exc_msg"]).split()[:3]
            site = site + ":" + "-".join(_re.sub(r"[^A-Za-z]", "", w) for w in words)
        v = Violation(cls, f"{what} on node {node.idx} (PYTHONHASHSEED={node.seed}): {op} raised "
                      f"{f['exc_type']}: {f['exc_msg']}{hist} at {site}" + (f"; value of type {vtype}" if vtype else ""),
                      fingerprint=f"{cls}:{fam}:{f['exc_type']}@{site}" + (f":{vtype}" if (vtype and generic) else ""))
        v.traceback_text = f.get("tb")
        raise v

    def label(self, rid: int) -> str:
        return self.recipes[rid]["label"]

    # -- configuration -------------------------------------------------------------------------------
    def configure(self) -> None:
        t, ctx = self.t, self.ctx
        H = list(self.cluster.HASH_SEEDS)
        n_nodes = 2 + t.weighted([6, 3, 1], "config.nodes")
        seeds = []
        for _ in range(n_nodes):
            seeds.append(H.pop(t.weighted([6, 4, 2, 1, 1, 1][:len(H)], "config.hashseed")))
        self.n_ops = t.between(10, 60, "config.ops")
        self.workload = t.weighted([2, 1], "config.workload")      # 0: histories, 1: value sweep
        self.ctx.workload = ("cluster-history", "value-sweep")[self.workload]
        self.corpus_bias = t.weighted([3, 3, 2], "config.corpus-bias")
        # real restarts (kill -9, new process, new hash seed) are rationed: allowed in a quarter of the runs,
        # at most two per run
        restart_allowed = t.chance(1, 4, "config.restart-allowed")
        self.restarts_left = (1 + t.draw(2, "config.restarts")) if restart_allowed else 0
        if restart_allowed:
            ctx.fault_configured("restart")
        ctx.fault_configured("drop-node")
        ctx.decide("config", n_nodes, tuple(seeds), self.n_ops, self.corpus_bias, restart_allowed, self.workload)
        for i, s in enumerate(seeds):
            self.nodes.append(_LNode(i, s, self.pool.acquire(s)))

    # -- recipes ---------------------------------------------------------------------------------------
    def new_recipe(self, source: Optional[int] = None, entry=None, focus=None) -> int:
        from checks import c11_gen
        t = self.t
        if source is None:
            source = t.weighted(RECIPE_SOURCE_WEIGHTS[self.corpus_bias], "recipe.source")
        rec = None
        if source == 2:
            # a stored example whose literals are changed under tape control: a legal instance (if the
            # constructors accept it) with non-default / falsy / unsorted arguments, for ~every registered class
            pkg, name = entry if entry is not None else t.pick(self.check.corpus_outward, "recipe.corpus-entry")
            text, how = c11_gen.mutate_repr(t, self.check.corpus_text[(pkg, name)], focus)
            if text is not None:
                dig = hashlib.sha1(text.encode()).hexdigest()[:8]
                rec = {"recipe": ["mutrepr", pkg, name, text], "label": f"mut:{pkg}/{name}#{dig}", "kind": "mutated",
                       "flags": frozenset(), "named_deep": False, "how": how}
            else:
                source = 1
                rec = {"recipe": ["corpus", pkg, name], "label": f"corpus:{pkg}/{name}", "kind": "corpus",
                       "flags": frozenset(), "named_deep": False}
        elif source == 1:
            pkg, name = t.pick(self.check.corpus_outward, "recipe.corpus-entry")
            rec = {"recipe": ["corpus", pkg, name], "label": f"corpus:{pkg}/{name}", "kind": "corpus",
                   "flags": frozenset(), "named_deep": False}
        else:
            g = c11_gen.Gen(t)
            kind, r = g.value()
            dig = hashlib.sha1(json.dumps(r, sort_keys=True).encode()).hexdigest()[:8]
            rec = {"recipe": r, "label": f"gen:{kind}#{dig}", "kind": kind, "flags": frozenset(g.flags),
                   "named_deep": c11_gen.named_in_circuitop_in_frozen(r)}
        self.recipes.append(rec)
        return len(self.recipes) - 1

    # -- operations --------------------------------------------------------------------------------------
    def pick_node(self, label: str, pred=None) -> Optional[_LNode]:
        cands = [n for n in self.nodes if pred is None or pred(n)]
        if not cands:
            return None
        return self.t.pick(cands, label)

    def pick_held(self, node: _LNode, label: str) -> int:
        slots = sorted(node.held)
        # later slots (more history) first: value 0 = the most recently added
        return slots[len(slots) - 1 - self.t.draw(len(slots), label)]

    def make_room(self, node: _LNode) -> None:
        while len(node.held) >= MAX_HELD:
            oldest = min(node.held)
            self.call(node, {"op": "drop", "slot": oldest}, "drop")
            del node.held[oldest]

    def op_build(self, node: Optional[_LNode] = None, rid: Optional[int] = None) -> Optional[int]:
        if node is None:
            node = self.pick_node("build.node")
        if rid is None:
            reuse = [i for i in range(len(self.recipes)) if not self.recipes[i].get("rejected")]
            if reuse and self.t.chance(1, 4, "build.reuse-recipe"):
                rid = self.t.pick(reuse, "build.recipe")
            else:
                rid = self.new_recipe()
        self.make_room(node)
        slot = node.new_slot()
        self.ctx.decide("build", node.idx, slot, self.label(rid))
        resp = self.call(node, {"op": "build", "slot": slot, "recipe": self.recipes[rid]["recipe"]}, "build")
        rec = self.recipes[rid]
        if resp["rejected"]:
            rec["rejected"] = True
            self.ctx.event("rejected", rec.get("how"), resp["exc_type"])
            self.ctx.probe("mutated-repr-rejected")
            if resp["exc_type"] == "zero-qubit-stabilizer":
                self.ctx.probe("mutated-zero-qubit-stabilizer-discarded")
            return None
        if rec["kind"] == "mutated":
            self.ctx.probe("mutated-repr-accepted")
        node.held[slot] = _Held(rid, "build", 0, ((node.idx, node.gen),), family=resp["family"])
        rec.setdefault("type", resp["type"])
        rec.setdefault("cirq_top", resp["cirq_top"])
        self.ctx.event("built", resp["type"])
        return slot

    def op_touch(self, node: Optional[_LNode] = None, slot: Optional[int] = None) -> None:
        if node is None:
            node = self.pick_node("touch.node", lambda n: n.held)
            slot = self.pick_held(node, "touch.slot")
        n_kinds = 1 + self.t.weighted([3, 3, 2], "touch.count")
        kinds = []
        for _ in range(n_kinds):
            kinds.append(self.t.pick(TOUCH_KINDS, "touch.kind"))
        h = node.held[slot]
        self.ctx.decide("touch", node.idx, slot, tuple(kinds))
        resp = self.call(node, {"op": "touch", "slot": slot, "kinds": kinds}, "touch",
                         vtype=self.recipes[h.rid].get("type"))
        results = tuple(resp["results"])
        self.ctx.event("touched", results)
        for k, r in zip(kinds, results):
            if r == "ok":
                h.touched.add(k)
            if k == "hash" and r == "ok":
                h.hash_cached = True
            if r == "self-unequal":
                raise Violation(f"{P}-NEQ", f"value {self.label(h.rid)} held on node {node.idx} is not equal to "
                                f"itself", fingerprint=f"{P}-NEQ:self:{self.recipes[h.rid].get('type')}")

    def check_verdict(self, v: dict, cls_eq: str, what: str, label: str, detail: str,
                      cls_hash: str = f"{P}-HASH") -> None:
        self.ctx.event("verdict", what, v["eq"], v["eq_rev"], v["ne_false"], v["hashable_same"], v["hash_eq"],
                       v["lookup"], v["hashable"])
        where = v.get("where")
        fam = what
        if not (v["eq"] and v["eq_rev"]):
            raise Violation(cls_eq, f"{detail}: the value is not equal to its reference (==: {v['eq']}, reversed: "
                            f"{v['eq_rev']}); differing component: {where}; value {label} "
                            f"({v['type_a']} vs {v['type_b']})", fingerprint=f"{cls_eq}:{fam}:{where}")
        if not v["ne_false"]:
            raise Violation(cls_eq, f"{detail}: a == b but a != b is also true; component {where}; value {label}",
                            fingerprint=f"{cls_eq}:{fam}:ne:{where}")
        if not v["hashable_same"]:
            raise Violation(cls_hash, f"{detail}: one of two equal values is hashable, the other is not "
                            f"({where}); value {label}", fingerprint=f"{cls_hash}:{fam}:hashable:{where}")
        if not v["hash_eq"]:
            raise Violation(cls_hash, f"{detail}: equal values have different hash() on this node; component "
                            f"{where}; value {label}", fingerprint=f"{cls_hash}:{fam}:hash:{where}"
                            if cls_hash != f"{P}-HASH" else f"{P}-HASH:{fam}:{where}")
        if not v["lookup"]:
            raise Violation(cls_hash, f"{detail}: the value does not find its equal reference in a dict/set "
                            f"on this node; component {where}; value {label}",
                            fingerprint=f"{cls_hash}:{fam}:lookup:{where}")

    def check_payload(self, pv: Optional[dict], what: str, label: str, detail: str, vtype: Optional[str]) -> None:
        if pv is None:
            return
        self.ctx.event("payload", what, pv["same"], pv["n"])
        if pv["n"]:
            self.ctx.probe("payload-compared")
        if not pv["same"]:
            where = pv["where"] or ""
            import re as _re
            place = _re.sub(r"\[\d+\]|\{\d+\}", "", where)        # <Type>.field without positions
            if "<" in place:
                place = place[place.rindex("<"):]                  # the innermost object and its field / flag
            raise Violation(f"{P}-PAYLOAD", f"{detail}: numpy/pandas payload differs at {where}: {pv['detail']}; "
                            f"value {label}", fingerprint=f"{P}-PAYLOAD:{what}:{place or vtype}")

    def op_copy(self) -> None:
        node = self.pick_node("copy.node", lambda n: n.held)
        slot = self.pick_held(node, "copy.slot")
        deep = bool(self.t.draw(2, "copy.deep"))
        h = node.held[slot]
        self.make_room(node)
        if slot not in node.held:     # made room by dropping it
            return
        new_slot = node.new_slot()
        name = "deepcopy" if deep else "copy"
        self.ctx.decide(name, node.idx, slot, new_slot)
        resp = self.call(node, {"op": "copy", "slot": slot, "new_slot": new_slot, "deep": deep,
                                "recipe": self.recipes[h.rid]["recipe"]}, name, vtype=self.recipes[h.rid].get("type"))
        if resp["unsupported"]:
            self.ctx.event("unsupported", name, self.recipes[h.rid].get("type"))
            self.ctx.probe(f"unsupported:{name}")
            return
        if h.touched:
            self.ctx.probe("copy-of-cache-touched-value")
        self.check_verdict(resp["verdict"], f"{P}-COPY", name, self.label(h.rid),
                           f"copy.{name} on node {node.idx} (PYTHONHASHSEED={node.seed}) of a value with touched "
                           f"caches {sorted(h.touched)}")
        self.check_payload(resp.get("payload"), "copy", self.label(h.rid),
                           f"copy.{name} on node {node.idx}", self.recipes[h.rid].get("type"))
        nh = _Held(h.rid, name, h.hops, h.procs, hash_cached=True, family=h.family)
        node.held[new_slot] = nh

    def derive_args(self, method: str):
        from checks import c11_gen
        t = self.t
        if method == "with_tags":
            return [[["tag", "str", "t"]], [["tag", "virtual"]], [["tag", "str", "tag2"], ["tag", "physz"]]][
                t.draw(3, "derive.tags")]
        if method == "key_path_prefix":
            return t.pick((["pre"], ["a", "b"]), "derive.path")
        if method == "pow":
            return [t.pick((["f", 1, 2], ["i", -1], ["i", 2], ["s", "a"]), "derive.exponent")]
        if method == "repeat":
            return [t.pick((2, 3), "derive.repetitions")]
        if method == "with_params":
            return [["a", ["f", 1, 2]], ["theta", ["s", "b"]]][:1 + t.draw(2, "derive.params")]
        if method == "replace":
            return [t.pick(("outer", "x"), "derive.parent")]
        if method == "resolve":
            return [["a", ["f", 1, 2]], ["b", ["f", 1, 4]], ["theta", ["i", 1]], ["n", ["i", 2]]]
        if method == "with_dimension":
            return [t.pick((3, 2, 4), "derive.dimension")]
        if method == "tableau_apply":
            return [t.pick(("x", "h", "z", "cx"), "derive.tableau-gate"), t.draw(3, "derive.tableau-axis")]
        if method == "with_operation":
            return [t.pick(("x", "measure", "controlled", "feedforward"), "derive.operation")]
        if method == "with_classical_controls":
            return [c11_gen.Gen(t).condition()]
        return []

    def op_derive(self, node: Optional[_LNode] = None, slot: Optional[int] = None) -> Optional[int]:
        """Derive a new value from a held one through a public method -- after its caches were touched, after
        hops, after copies -- and compare with the same derivation of a fresh untouched equal value."""
        t, ctx = self.t, self.ctx
        if node is None:
            node = self.pick_node("derive.node", lambda n: any(h.family in DERIVATIONS for h in n.held.values()))
            if node is None:
                return None
            slots = [s for s in sorted(node.held) if node.held[s].family in DERIVATIONS]
            slot = slots[len(slots) - 1 - t.draw(len(slots), "derive.slot")]
        h = node.held[slot]
        if h.family not in DERIVATIONS:
            return None
        base = self.recipes[h.rid]
        method = t.pick(DERIVATIONS[h.family], "derive.method")
        args = self.derive_args(method)
        depth = 0
        r = base["recipe"]
        while r[0] == "derive":
            depth += 1
            r = r[3]
        if depth >= 2:
            return None
        self.make_room(node)
        if slot not in node.held:
            return None
        new_slot = node.new_slot()
        ctx.decide("derive", node.idx, slot, new_slot, method, json.dumps(args))
        resp = self.call(node, {"op": "derive", "slot": slot, "new_slot": new_slot, "method": method, "args": args,
                                "recipe": base["recipe"], "in_place": method in IN_PLACE_DERIVATIONS},
                         f"derive {method}", vtype=base.get("type"))
        if resp["na"]:
            ctx.event("derive-na", resp["why"].split(":")[0])
            ctx.probe("derive-not-applicable")
            return None
        ctx.probe("derive")
        if h.touched or h.hash_cached:
            ctx.probe("derive-after-touch")
        if h.hash_cached:
            ctx.probe("derive-after-hash-cached")
        if h.hops:
            ctx.probe("derive-after-hop")
        ctx.state(("derive", h.family, method, bool(h.touched or h.hash_cached), min(h.hops, 2)))
        if not resp["comparable"]:
            # the held value is ==-equal to its recipe but writes another document (it came through a hop that
            # only promises ==): its derivations are not what the recipe's derivations are; not kept
            ctx.event("derive-not-comparable", resp.get("same_storage", True))
            ctx.probe("derive-source-writes-another-document" if resp.get("same_storage", True)
                      else "derive-source-stores-another-dtype")
            self.call(node, {"op": "drop", "slot": new_slot}, "drop")
            return None
        self.check_verdict(resp["verdict"], f"{P}-DERIVED", f"derive:{method}", base["label"],
                           f"{method}() on node {node.idx} (PYTHONHASHSEED={node.seed}) of a held value (arrived via "
                           f"{h.via}, hops {h.hops}, touched {sorted(h.touched)}, hash cached: {h.hash_cached}) "
                           f"compared with {method}() of a freshly built equal value", cls_hash=f"{P}-DERIVED")
        rec = {"recipe": ["derive", method, args, base["recipe"]], "label": f"der:{method}:{base['label']}"[:120],
               "kind": "derived", "flags": base["flags"], "named_deep": base["named_deep"], "type": resp["type"],
               "cirq_top": resp["cirq_top"]}
        self.recipes.append(rec)
        node.held[new_slot] = _Held(len(self.recipes) - 1, "derive", h.hops, h.procs, hash_cached=True,
                                    family=resp["family"])
        if method in IN_PLACE_DERIVATIONS:
            # the source slot holds the very same, now updated, object: it no longer is what its recipe says
            ctx.probe("derive-in-place-after-hash" if h.hash_cached else "derive-in-place")
            self.call(node, {"op": "drop", "slot": slot}, "drop")
            node.held.pop(slot, None)
        return new_slot

    def op_twin(self, node: Optional[_LNode] = None, rid: Optional[int] = None) -> None:
        """The same value spelled differently (1 / 1.0, 0.0 / -0.0, another array dtype, a dict literal in the
        other order): if the two are ==, they must hash alike and find each other [C11-HASH]."""
        from checks import c11_gen
        t, ctx = self.t, self.ctx
        if node is None:
            node = self.pick_node("twin.node")
        if rid is None:
            cands = [i for i, r in enumerate(self.recipes) if not r.get("rejected") and r["kind"] != "derived"]
            if not cands:
                return
            rid = cands[len(cands) - 1 - t.draw(len(cands), "twin.recipe")]
        rec = self.recipes[rid]
        r = rec["recipe"]
        if r[0] in ("corpus", "mutrepr"):
            text = self.check.corpus_text[(r[1], r[2])] if r[0] == "corpus" else r[3]
            other, how = c11_gen.mutate_repr(t, text, mode="storage")
            twin = None if other is None else ["mutrepr", r[1], r[2], other]
        else:
            twin, how = c11_gen.storage_variant(t, r)
        if twin is None:
            return
        ctx.decide("twin", node.idx, rec["label"], how)
        resp = self.call(node, {"op": "twin", "recipe_a": r, "recipe_b": twin}, "twin", vtype=rec.get("type"))
        if resp["rejected"]:
            ctx.event("twin-rejected", resp["why"].split(":")[0])
            ctx.probe("twin-rejected")
            return
        ctx.event("twin", resp["eq"], resp["hash_eq"], resp["lookup"], resp["hashable"])
        if resp["eq"]:
            ctx.probe("twin-equal-respelling")
            if resp["hashable"]:
                ctx.probe("twin-hash-compared")
        if not resp["hash_eq"]:
            raise Violation(f"{P}-HASH", f"node {node.idx} (PYTHONHASHSEED={node.seed}): two spellings of one value "
                            f"({how}) are == but hash differently (component {resp['where']}); value {rec['label']}",
                            fingerprint=f"{P}-HASH:twin:{resp['where']}")
        if not resp["lookup"]:
            raise Violation(f"{P}-HASH", f"node {node.idx}: two spellings of one value ({how}) are == and hash alike "
                            f"but do not find each other in a dict ({resp['where']}); value {rec['label']}",
                            fingerprint=f"{P}-HASH:twin:lookup:{resp['where']}")

    def op_export(self) -> None:
        node = self.pick_node("export.node", lambda n: n.held)
        slot = self.pick_held(node, "export.slot")
        if self.t.chance(1, 5, "export.sweep"):
            # the same value, in its present state, through every kind of transport (separate dumps)
            self.ctx.probe("export-sweep")
            for transport in ("json", "repr", TRANSPORTS[self.t.pick((1, 3, 5, 6), "export.sweep.pickle")]):
                self.export_one(node, slot, transport)
            return
        self.export_one(node, slot, TRANSPORTS[self.t.weighted(TRANSPORT_WEIGHTS, "export.transport")])

    def export_one(self, node: _LNode, slot: int, transport: str) -> Optional[dict]:
        h = node.held[slot]
        rec = self.recipes[h.rid]
        if transport == "repr" and not rec.get("cirq_top", False):
            transport = "json"     # printed representations of non-Cirq values are not Cirq's to keep
        self.ctx.decide("export", node.idx, slot, transport)
        resp = self.call(node, {"op": "export", "slot": slot, "transport": transport, "recipe": rec["recipe"]},
                         f"export {transport}", vtype=rec.get("type"))
        if resp["unsupported"]:
            self.ctx.event("unsupported", "export", transport, rec.get("type"))
            self.ctx.probe("unsupported:pickle")
            return None
        ctx = self.ctx
        if transport.startswith("pickle") and h.hash_cached:
            ctx.probe("pickle-of-hash-cached-value")
        if transport == "pickle2":
            ctx.probe("pickle-protocol-2")
        if transport == "gzip":
            ctx.probe("gzip-path")
        if resp.get("has_ref"):
            ctx.probe("ref-entry-emitted")
        if rec["named_deep"]:
            ctx.probe("namedqubit-in-circuitop-in-frozencircuit")
        if "measurement-and-control-keys" in rec["flags"]:
            ctx.probe("op-with-measurement-and-control-keys")
        for flag, probe in (("coupler-tied", "coupler-tied-endpoints"), ("tied-qids", "qids-tied-on-coordinates"),
                            ("negative-coordinate", "negative-coordinate")):
            if flag in rec["flags"]:
                ctx.probe(probe)
        if any(m["src"] == (node.idx, node.gen, slot) for m in self.messages):
            ctx.probe("same-value-in-two-dumps")
            if "shared-frozen" in rec["flags"] or "frozen" in rec["flags"]:
                ctx.probe("same-frozen-circuit-in-two-dumps")
        msg = {"rid": h.rid, "transport": transport, "payload": resp["payload"], "src": (node.idx, node.gen, slot),
               "src_seed": node.seed, "touched": bool(h.touched), "hash_cached": h.hash_cached, "hops": h.hops,
               "procs": h.procs, "src_alive": True, "payload_desc": resp.get("payload_desc")}
        if resp.get("payload_desc") is not None:
            h.touched.add("payload-walk")     # describing the payloads read _json_dict_ and the array attributes
        ctx.event("exported", transport, bool(h.touched), resp.get("has_ref", False))
        self.messages.append(msg)
        if len(self.messages) > MAX_MESSAGES:
            self.messages.pop(0)
        return msg

    def op_import(self, m: Optional[dict] = None) -> None:
        t, ctx = self.t, self.ctx
        if m is None:
            # value 0 = the newest message
            m = self.messages[len(self.messages) - 1 - t.draw(len(self.messages), "import.message")]
        # prefer a node other than the source (a hop); value 0 = first other node
        others = [n for n in self.nodes if (n.idx, n.gen) != m["src"][:2]]
        same = [n for n in self.nodes if (n.idx, n.gen) == m["src"][:2]]
        order = others + same
        node = order[t.weighted([8] * len(others) + [2] * len(same), "import.node")]
        rec = self.recipes[m["rid"]]
        self.make_room(node)
        slot = node.new_slot()
        transport = m["transport"]
        ctx.decide("import", node.idx, slot, transport, m["src"][0], m["src"][1])
        resp = self.call(node, {"op": "import", "slot": slot, "transport": transport, "payload": m["payload"],
                                "recipe": rec["recipe"], "src_payload": m.get("payload_desc")},
                         f"import {transport}", vtype=rec.get("type"))
        if resp["unsupported"]:
            ctx.event("unsupported", "import", transport, rec.get("type"))
            ctx.probe("repr-not-evaluable")
            return
        node.imports += 1
        different_seed = (m["src_seed"] != node.seed)
        cross = (node.idx, node.gen) != m["src"][:2]
        hops = m["hops"] + (1 if cross else 0)
        if cross and different_seed:
            ctx.nontrivial = True
        if not m["src_alive"]:
            ctx.probe("restart-between-export-and-import")
        if hops >= 2:
            ctx.probe("second-hop")
        if hops >= 3:
            ctx.probe("third-hop")
        if cross and (node.idx, node.gen) in m["procs"]:
            ctx.probe("hop-back-to-origin")
        ctx.state((rec["kind"], m["touched"], _family(transport), "other-seed" if different_seed else
                   ("other-process" if cross else "same-process"), min(hops, 3)))
        detail = (f"import of a {transport} payload on node {node.idx} (PYTHONHASHSEED={node.seed}), exported by "
                  f"node {m['src'][0]} (PYTHONHASHSEED={m['src_seed']}) after {'touching' if m['touched'] else 'not touching'}"
                  f" its caches, hop {hops}")
        cls_eq = f"{P}-REPR" if transport == "repr" else f"{P}-NEQ"
        self.check_verdict(resp["verdict"], cls_eq, _family(transport), rec["label"], detail)
        self.check_payload(resp.get("payload"), _family(transport), rec["label"], detail, rec.get("type"))
        b = resp.get("behaviour")
        if b is not None:
            ctx.event("behaviour", b["applies"], b["same"], b["kind"])
            if not b["same"]:
                raise Violation(f"{P}-BEHAVIOUR", f"{detail}: cirq.{b['kind']} of the imported value differs from "
                                f"that of the locally rebuilt value ({b['where']}); value {rec['label']}",
                                fingerprint=f"{P}-BEHAVIOUR:{_family(transport)}:{b['kind']}:{b['where']}")
        if resp.get("idempotent") is not None:
            ctx.event("idempotent", resp["idempotent"])
            if not resp["idempotent"]:
                raise Violation(f"{P}-BEHAVIOUR", f"{detail}: cirq.to_json(imported) is not the text that was "
                                f"imported; value {rec['label']} ({resp['type']})",
                                fingerprint=f"{P}-BEHAVIOUR:json-text:{resp['type']}")
        node.held[slot] = _Held(m["rid"], transport, hops, m["procs"] + ((node.idx, node.gen),), hash_cached=True,
                                family=resp["family"])

    def op_report(self, node: Optional[_LNode] = None) -> None:
        if node is None:
            node = self.pick_node("report.node", lambda n: n.held)
            self.ctx.decide("report", node.idx)
        slots = sorted(node.held)
        resp = self.call(node, {"op": "report", "slots": slots}, "report")
        classes = resp["classes"]
        self.ctx.event("report", node.idx, tuple(resp["types"]), tuple(classes), len(resp["bad_hash"]),
                       len(resp["bad_lookup"]))
        by_rid: Dict[int, List[int]] = {}
        for k, s in enumerate(slots):
            by_rid.setdefault(node.held[s].rid, []).append(k)
        for rid, ks in by_rid.items():
            if len({classes[k] for k in ks}) > 1:
                vias = sorted({node.held[slots[k]].via for k in ks})
                cls = f"{P}-REPR" if "repr" in vias else f"{P}-NEQ"
                raise Violation(cls, f"node {node.idx} (PYTHONHASHSEED={node.seed}) holds several values of "
                                f"{self.label(rid)} (arrived via {vias}) that are not all equal to each other",
                                fingerprint=f"{cls}:report:{resp['types'][ks[0]]}")
        if resp["bad_hash"]:
            a, b, where = resp["bad_hash"][0]
            raise Violation(f"{P}-HASH", f"node {node.idx} (PYTHONHASHSEED={node.seed}): two held values compare "
                            f"equal but hash differently (component {where}): {self.label(node.held[a].rid)} via "
                            f"{node.held[a].via} and {self.label(node.held[b].rid)} via {node.held[b].via}",
                            fingerprint=f"{P}-HASH:report:{where}")
        if resp.get("eq_raises"):
            a, b, tname, exc = resp["eq_raises"][0]
            raise Violation(f"{P}-SUT-EXCEPTION", f"node {node.idx}: == between two held values of class {tname} "
                            f"raises {exc} ({self.label(node.held[a].rid)} vs {self.label(node.held[b].rid)})",
                            fingerprint=f"{P}-SUT-EXCEPTION:eq-between-held:{exc}:{tname}")
        if resp["bad_lookup"]:
            a, b, where = resp["bad_lookup"][0]
            raise Violation(f"{P}-HASH", f"node {node.idx}: equal held values do not find each other in a dict "
                            f"({where})", fingerprint=f"{P}-HASH:report:lookup:{where}")

    def op_sort(self) -> None:
        from checks import c11_gen
        t = self.t
        g = c11_gen.Gen(t)
        n = t.between(2, 6, "sort.n")
        qids = []
        for _ in range(n):
            if qids and t.chance(1, 5, "sort.duplicate"):
                qids.append(t.pick(qids, "sort.which"))
            else:
                qids.append(g.bare_qid())
        dig = hashlib.sha1(json.dumps(qids).encode()).hexdigest()[:8]
        nodes = [x for x in self.nodes if t.chance(2, 3, "sort.on-node")] or self.nodes[:1]
        self.ctx.decide("sort-qids", tuple(x.idx for x in nodes), n, dig)
        perms = {}
        for node in nodes:
            resp = self.call(node, {"op": "sort_qids", "recipes": qids}, "sort_qids")
            self.ctx.event("sorted", node.idx, tuple(resp["perm"] or ()), len(resp["bad"]))
            if resp["bad"]:
                pair = resp["bad_types"][0] if resp["bad_types"] else ["sorted"]
                raise Violation(f"{P}-ORDER", f"node {node.idx} (PYTHONHASHSEED={node.seed}): qid ordering is not "
                                f"total / not consistent with ==: {resp['bad'][0]}; qids {qids}",
                                fingerprint=f"{P}-ORDER:{'+'.join(pair)}")
            perms[node.idx] = resp["perm"]
        vals = list(perms.items())
        for (i, p), (j, q) in zip(vals, vals[1:]):
            if p != q:
                raise Violation(f"{P}-ORDER", f"nodes {i} and {j} sort the same qids into different sequences: "
                                f"{p} vs {q}; qids {qids}", fingerprint=f"{P}-ORDER:cross-node")
        if len(perms) >= 2:
            self.ctx.probe("qids-sorted-on-several-nodes")

    def op_corpus(self) -> None:
        t = self.t
        node = self.pick_node("corpus.node")
        pkg, name, inward = t.pick(self.check.corpus_docs, "corpus.doc")
        keep = (not inward) and t.chance(1, 3, "corpus.keep")
        slot = None
        if keep:
            self.make_room(node)
            slot = node.new_slot()
        self.ctx.decide("corpus-read", node.idx, pkg, name, inward, keep)
        resp = self.call(node, {"op": "corpus_read", "pkg": pkg, "name": name, "inward": inward, "slot": slot},
                         f"corpus read {pkg}/{name}")
        self.ctx.event("corpus", resp["eq"], resp["outward"])
        if node.imports:
            self.ctx.probe("corpus-read-after-imports")
        suffix = "json_inward" if inward else "json"
        if not resp["eq"]:
            raise Violation(f"{P}-CORPUS", f"node {node.idx} (PYTHONHASHSEED={node.seed}, {node.imports} earlier "
                            f"imports): stored document {pkg}/{name}.{suffix} does not read to a value equal to "
                            f"eval of its paired repr", fingerprint=f"{P}-CORPUS:{pkg}/{name}.{suffix}")
        pv = resp.get("payload")
        if pv is not None:
            self.ctx.event("payload", "corpus", pv["same"], pv["n"])
            if pv["n"]:
                self.ctx.probe("corpus-payload-compared")
            if not pv["same"] and (pkg, name, inward) not in CORPUS_PAYLOAD_DISAGREES_AT_HEAD:
                raise Violation(f"{P}-PAYLOAD", f"node {node.idx} (PYTHONHASHSEED={node.seed}): the value read from "
                                f"{pkg}/{name}.{suffix} and eval of its paired repr are == but their numpy/pandas "
                                f"payloads differ at {pv['where']}: {pv['detail']}",
                                fingerprint=f"{P}-PAYLOAD:corpus:{pkg}/{name}.{suffix}")
        if resp["outward"] is False:
            raise Violation(f"{P}-CORPUS", f"node {node.idx}: cirq.to_json of the value of {pkg}/{name}.repr no "
                            f"longer produces the stored {name}.json (the repository's own rule: move the old file "
                            f"to .json_inward)", fingerprint=f"{P}-CORPUS:outward:{pkg}/{name}")
        if keep:
            rid = None
            for i, r in enumerate(self.recipes):
                if r["recipe"] == ["corpus", pkg, name]:
                    rid = i
            if rid is None:
                self.recipes.append({"recipe": ["corpus", pkg, name], "label": f"corpus:{pkg}/{name}",
                                     "kind": "corpus", "flags": frozenset(), "named_deep": False,
                                     "type": resp["type"], "cirq_top": resp["cirq_top"]})
                rid = len(self.recipes) - 1
            node.held[slot] = _Held(rid, "corpus", 0, ((node.idx, node.gen),), family=resp["family"])

    def op_drop_node(self) -> None:
        node = self.pick_node("drop.node", lambda n: n.held)
        self.ctx.decide("drop-node", node.idx)
        self.ctx.fault("drop-node")
        self.call(node, {"op": "reset"}, "reset")
        node.held.clear()

    def op_restart(self) -> None:
        t = self.t
        node = self.pick_node("restart.node")
        in_use = {n.seed for n in self.nodes}
        free = [s for s in self.cluster.HASH_SEEDS if s not in in_use]
        new_seed = t.pick(free, "restart.hashseed")
        self.ctx.decide("restart", node.idx, new_seed)
        self.ctx.fault("restart")
        self.restarts_left -= 1
        for m in self.messages:
            if m["src"][:2] == (node.idx, node.gen):
                m["src_alive"] = False
        node.proc = self.pool.restart(node.proc, new_seed)
        node.seed = new_seed
        node.gen += 1
        node.held.clear()
        node.imports = 0

    # -- the run ---------------------------------------------------------------------------------------
    KINDS = ("build", "touch", "export", "import", "copy", "report", "corpus", "sort", "drop-node", "restart",
             "derive", "twin")

    def step(self) -> None:
        any_held = any(n.held for n in self.nodes)
        n_held = sum(len(n.held) for n in self.nodes)
        w = {
            "build": 8 if n_held < 3 else 3,
            "touch": 5 if any_held else 0,
            "export": 8 if any_held else 0,
            "import": 10 if self.messages else 0,
            "copy": 2 if any_held else 0,
            "report": 2 if any_held else 0,
            "corpus": 2,
            "sort": 1,
            "drop-node": 1 if any_held else 0,
            "restart": 3 if self.restarts_left > 0 and self.messages else 0,
            "derive": 5 if any(h.family in DERIVATIONS for n in self.nodes for h in n.held.values()) else 0,
            "twin": 2 if self.recipes else 0,
        }
        kind = self.KINDS[self.t.weighted([w[k] for k in self.KINDS], "op")]
        self.ctx.steps += 1
        if len(self.sample_ops) < 80:
            self.sample_ops.append(kind)
        getattr(self, "op_" + kind.replace("-", "_"))()

    def value_sweep(self) -> None:
        """Workload "value-sweep": many values, short histories.  One stored example is taken and 8-24 different
        mutants of it -- going through its literals one after the other -- (now and then a generated value
        instead) are each built, perhaps touched, perhaps derived from, and sent through JSON and one more
        transport to another node.  Same operations and oracles as the history workload; the tape decides
        everything."""
        t = self.t
        entry = t.pick(self.check.corpus_outward, "sweep.entry")
        n_items = t.between(8, 24, "sweep.items")
        offset = t.draw(64, "sweep.first-literal")
        self.ctx.decide("value-sweep", f"{entry[0]}/{entry[1]}", n_items, offset)
        for i in range(n_items):
            generated = t.chance(1, 6, "sweep.generated")
            rid = self.new_recipe(source=0 if generated else 2, entry=entry, focus=offset + i)
            node = self.pick_node("sweep.node")
            slot = self.op_build(node, rid)
            self.ctx.steps += 1
            if slot is None:
                continue
            if t.chance(1, 3, "sweep.twin"):
                self.op_twin(node, rid)
                self.ctx.steps += 1
            if t.chance(1, 3, "sweep.touch"):
                self.op_touch(node, slot)
            subjects = [slot]
            if t.chance(1, 3, "sweep.derive"):
                d = self.op_derive(node, slot)
                if d is not None:
                    subjects.append(d)
            for sl in subjects:
                if sl not in node.held:
                    continue
                for transport in ("json", TRANSPORTS[t.pick((4, 1, 3, 2, 5, 6), "sweep.transport")]):
                    m = self.export_one(node, sl, transport)
                    self.ctx.steps += 1
                    if m is not None:
                        self.op_import(m)
                        self.ctx.steps += 1
            if t.chance(1, 6, "sweep.report") and any(n.held for n in self.nodes):
                self.op_report(self.pick_node("sweep.report.node", lambda n: n.held))
            if len(self.sample_ops) < 80:
                self.sample_ops.append("sweep-item")

    def go(self) -> None:
        self.configure()
        if self.workload == 1:
            self.value_sweep()
        else:
            for _ in range(self.n_ops):
                self.step()
        for n in self.nodes:
            if n.held:
                self.op_report(n)
        self.ctx.sample = {"nodes": [(n.idx, n.seed, n.gen) for n in self.nodes], "ops": self.sample_ops,
                           "values": [r["label"] for r in self.recipes][:12]}


class C11(Check):
    property_id = "C11"
    engine = "E6 interpreter cluster for value exchange"
    technique = ("deterministic simulation: a tape-driven coordinator schedules value exchange between separate "
                 "interpreter processes with different PYTHONHASHSEED; injected node restarts; oracles at every "
                 "import / copy / report / corpus read")
    rule = ("two workloads, chosen by the tape (2:1): 'cluster-history' and 'value-sweep' (one stored example, 8-24 "
            "mutants of it, each built / touched / derived from / sent through JSON and one more transport to other nodes); "
            "one run = one tape-decided history (2-4 interpreter processes with distinct hash seeds, 10-60 "
            "operations: build -- from a generated recipe, a stored example, or a stored example whose literals were "
            "mutated --, touch caches, copy, derive through a public method, export via JSON/gzip/pickle 2-5/repr, "
            "import on any node, report, qid sort, corpus read, drop, real restart); non-trivial = at least one payload was imported "
            "by a process with a different PYTHONHASHSEED than the exporting one; distinct = distinct digest of "
            "the decoded decision sequence (configuration, every operation with its node, slot, transport, "
            "value label and source)")
    state_measure = ("(value kind, caches touched before export?, transport family, same process / other process "
                     "same seed / other hash seed, hop count) at each import")
    assumptions = [
        "a node's PYTHONHASHSEED is one of six fixed values chosen by the tape; a node is a real CPython process: "
        "a fork() of an interpreter that was started with that PYTHONHASHSEED, imported the five packages from "
        "VERIF_REPO and did nothing else (one such 'zygote' per hash seed per check invocation, because a cold "
        "import costs 3-5 s); every run gets nodes nobody used before, a restart is kill -9 plus a new fork from "
        "another seed's zygote. Forks of one zygote share its address-space layout, so two nodes differ in "
        "id-based hashes only if their hash seeds differ -- a run's nodes always have distinct seeds",
        "nodes report verdicts (booleans) and type names only -- never hash values, addresses, reprs or set "
        "orders -- so the event log cannot depend on anything but the tape (in the fallback mode "
        "VERIF_NODE_MODE=spawn / VERIF_NODE_REUSE=N, where interpreters are reused across runs after a `reset`, "
        "this is what keeps carried-over resolver / functools caches out of the log)",
        "'equal behaviour' after JSON is decided against the locally rebuilt value only when that value writes "
        "the very document that was read (otherwise an earlier repr/pickle hop, not this JSON hop, is where "
        "the values diverged in something == does not look at); matrices are compared entry for entry, exactly, "
        "ignoring dtype -- except when the two values store their arrays with different dtypes (a complex64 "
        "MatrixGate read back as complex128 from a nested-list document, which the payload oracle accepts): what "
        "Cirq computes from the narrower matrix (an inverse for negative repetitions, a product) then differs in "
        "the last digits of the narrower type, and the comparison allows 64 ulp of that type times the dimension",
        "pickling / copying a class that cannot be pickled at all (exception raised outside the tree under test, "
        "also for a freshly built value) is recorded as unsupported, not as a violation; an exception raised by "
        "Cirq's own __getstate__/__reduce__ hooks, or one that appears only after the value's caches were "
        "touched, is a violation",
        "a printed representation that does not evaluate under the globals of the repository's own json test "
        "is not held against the class unless the representation of a freshly built equal value does evaluate",
        "a stored example with mutated literals counts as a value when (i) every constructor accepts it within 4 s of "
        "CPU time, (ii) it has the classes of the stored example in the same places, (iii) it compares equal, without "
        "raising, to a shallow copy of itself, and (iv) two constructions from the same text are == (an exception "
        "from that == is reported, not filtered); None is only put where -- or taken from where -- the callee's "
        "annotation says `| None`, and only ints/strs the annotation names replace a None; literals handed to "
        "sympy / datetime / pandas / networkx constructors are not mutated (Cirq's JSON documents those as "
        "approximations)",
        "a derived value is compared with the same derivation of a freshly built value only when the held source "
        "writes the same JSON document as the fresh one (a source that came through a repr hop is only promised "
        "to be ==, and == ignores e.g. WaitGate's qid_shape) and stores its arrays with the same dtypes (a complex64 "
        "MatrixGate that came through a nested-list JSON document is complex128; inverse / ** compute in the stored "
        "precision and MatrixGate.__eq__ is exact)",
        "zero-qubit stabilizer objects (CliffordTableau(0), StabilizerStateChForm(0), Clifford gates built on a "
        "zero-qubit tableau) are degenerate values outside the workload: the generators never build them and a "
        "mutated stored example that yields one is discarded (probe mutated-zero-qubit-stabilizer-discarded)",
        "payload oracle (C11-PAYLOAD): numpy arrays and pandas objects reachable through _json_dict_ trees, "
        "containers and the records / measurements / data attributes are compared by dtype, shape and values: an "
        "imported value against the very value that was exported (pickle, copy: identical dtype; JSON: identical, "
        "or the dtype numpy gives the listed form of the source array, because a document that stores a nested "
        "list carries no dtype -- complex64 reads back as complex128, e.g. MixedUnitaryChannel), a stored document "
        "against eval of its paired repr under the same rule; numpy scalars are not tracked (JSON turns them into "
        "Python numbers). Documents that already disagree on the pristine tree (cef4521): "
        + "; ".join(f"{k[0]}/{k[1]}: {v}" for k, v in CORPUS_PAYLOAD_DISAGREES_AT_HEAD.items()),
        "I/O faults on the JSON reader/writer are not injected (the property promises nothing about torn files)",
        "completeness of the value generators over all registered classes is best-effort; the stored examples "
        "seed it",
    ]
    real_vs_stub = {
        "real": "cirq.to_json/read_json(+gzip), CirqEncoder/ObjectHook, every _json_dict_/_from_json_dict_, resolver "
                "caches of the five packages, pickle/copy hooks (__getstate__, __getnewargs__), cached_method, "
                "value_equality, Qid ordering -- in real, separate CPython processes with different hash seeds",
        "stub": "nothing of Cirq; the 'network' and 'disk' are byte strings held by the coordinator; a node start "
                "is a fork of a pre-imported interpreter with the chosen hash seed, a restart is kill -9 + new fork",
    }
    tiers = {"quick": {"runs": 4000, "wall": 80}, "thorough": {"runs": 90000, "wall": 1100}}
    per_run_timeout = 300
    expected_probes = ["pickle-of-hash-cached-value", "restart-between-export-and-import",
                       "namedqubit-in-circuitop-in-frozencircuit", "ref-entry-emitted", "gzip-path",
                       "pickle-protocol-2", "second-hop", "third-hop", "hop-back-to-origin",
                       "corpus-read-after-imports", "same-frozen-circuit-in-two-dumps",
                       "copy-of-cache-touched-value", "mutated-repr-accepted", "mutated-repr-rejected",
                       "derive-after-hash-cached", "derive-after-hop", "export-sweep",
                       "op-with-measurement-and-control-keys", "payload-compared", "corpus-payload-compared",
                       "coupler-tied-endpoints", "qids-tied-on-coordinates", "negative-coordinate"]

    def setup(self) -> None:
        """Start the zygotes (one pre-imported interpreter per hash seed, shared by all workers; nodes are
        forked from them per run, after the runner has forked its workers) and index the stored corpus."""
        from engines import cluster
        cluster.start_zygotes()     # they import in the background while this process imports Cirq itself
        import cirq
        repoenv.assert_working_tree(cirq)
        from cirq.testing.json import spec_for
        root = repoenv.repo_root()
        outward, docs, texts = [], [], {}
        for pkg, module in CORPUS_PACKAGES:
            spec = spec_for(module)
            base = str(spec.test_data_path)
            if not os.path.realpath(base).startswith(root + os.sep):
                raise HarnessError(f"test data of {module} is at {base}, not under {root}")
            for key in spec.all_test_data_keys():
                name = os.path.basename(key)
                if name in spec.deprecated:
                    continue  # the repository's own test reads these only under assert_deprecated
                if os.path.exists(key + ".json") and os.path.exists(key + ".repr"):
                    outward.append((pkg, name))
                    with open(key + ".repr") as f:
                        texts[(pkg, name)] = f.read()
                    docs.append((pkg, name, False))
                if os.path.exists(key + ".json_inward") and os.path.exists(key + ".repr_inward"):
                    docs.append((pkg, name, True))
        if len(outward) < 200:
            raise HarnessError(f"only {len(outward)} stored examples found under {root}")
        self.corpus_outward = outward
        self.corpus_docs = docs
        self.corpus_text = texts
        from simkit.findings import Findings
        self._known = {e["fingerprint"] for e in Findings.load().findings if e.get("property") == P}

    def run_one(self, tape, ctx: Ctx) -> None:
        run = _Run(self, tape, ctx)
        try:
            run.go()
        except Violation as v:
            if any(v.fingerprint.startswith(p) for p in PENDING) and not os.environ.get("VERIF_C11_SHOW_PENDING"):
                ctx.event("pending", v.fingerprint)
                ctx.probe("pending:" + v.fingerprint)
                return
            if v.fingerprint in self._known:
                # Recorded findings share violation classes with new ones (C11-NEQ, C11-REPR, ...).  The
                # runner minimises a tape while "the same class" is still reached; giving recorded
                # fingerprints a class of their own keeps the minimisation of a *new* violation from
                # drifting into a recorded one (whose replay would then print KNOWN-FINDING and exit 0).
                v.cls = v.cls + "-KNOWN"
            raise
        finally:
            run.close()


CHECK = C11()
