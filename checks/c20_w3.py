"""C20 workload W3-L1: StreamManager against the model Quantum Engine.

Real: StreamManager, ResponseDemux, _manage_stream, _manage_execution, the retry table,
AsyncioExecutor.submit (run_coroutine_threadsafe + duet.AwaitableFuture.wrap), asyncio
tasks/queues/futures.  Simulated: the event loop's clock and scheduling (one callback per
step), the gRPC transport and the server (E3), when the user submits / cancels / stops.
"""
from __future__ import annotations

import asyncio
import concurrent.futures
import inspect

import google.api_core.exceptions as gexc

from cirq_google.cloud import quantum
from cirq_google.engine import stream_manager as sm

from engines import simloop
from engines.qe_model import ForeignError, ModelQuantumEngine, NONRETRYABLE_CODES
from engines.sim import Deadlock, Sim
from simkit.core import Ctx, StepCapExceeded, Violation

P = "C20"
PROJECT = "projects/p"


class _User:
    """User actions as simulator events: submit the next job, cancel one, stop the manager."""

    def __init__(self, sim, ctx, manager, loop, server, jobs, n_cancels, n_stops, burst):
        self.sim, self.ctx, self.manager, self.loop, self.server = sim, ctx, manager, loop, server
        self.jobs = jobs                  # list of (program_name, job_name)
        self.next = 0
        self.futures = {}                 # k -> duet future
        self.cancels_left = n_cancels
        self.stops_left = n_stops
        self.cancelled = {}               # k -> info at cancel time
        self.stops = []                   # (step, set of k in flight)
        self.submitted_after_stop = set()
        self.unsent_at_stop = []          # (step, job names in flight whose request the server had not read)
        self.burst = burst
        self.submit_step = {}

    def unresolved(self):
        return [k for k, f in self.futures.items() if not f.done()]

    def enabled(self):
        evs = []
        if self.next < len(self.jobs):
            evs.append((f"submit:{self.next}", self._submit))
        if not self.sim.fair:
            if self.cancels_left > 0:
                for k in self.unresolved():
                    if k not in self.cancelled:
                        evs.append((f"cancel:{k}", (lambda kk=k: self._cancel(kk))))
            if self.stops_left > 0 and self.futures and self.loop.quiescent():
                evs.append(("stop", self._stop))
        return evs

    def _submit(self):
        n = self.burst if self.burst > 1 else 1
        for _ in range(n):
            if self.next >= len(self.jobs):
                break
            k = self.next
            self.next += 1
            pname, jname = self.jobs[k]
            program = quantum.QuantumProgram(name=pname)
            job = quantum.QuantumJob(name=jname)
            self.futures[k] = self.manager.submit(PROJECT, program, job)
            self.submit_step[k] = self.sim.steps
            if self.stops:
                self.submitted_after_stop.add(k)

    def _cancel(self, k):
        self.cancels_left -= 1
        jname = self.jobs[k][1]
        # Is the execution coroutine of this job suspended inside its retry loop right now (its
        # request may therefore exist remotely)?  Then cancelling must reach the server.
        suspended = self._exec_suspended(jname)
        self.cancelled[k] = {"step": self.sim.steps, "exec_suspended": suspended}
        self.ctx.fault("cancel")
        if not suspended:
            self.ctx.probe("w3:cancel-before-request-queued")
        else:
            self.ctx.probe("w3:cancel-with-request-out")
        self.futures[k].cancel()

    def _exec_suspended(self, jname) -> bool:
        for t in asyncio.all_tasks(self.loop):
            coro = t.get_coro()
            if getattr(coro, "cr_code", None) is None or coro.cr_code.co_name != "_manage_execution":
                continue
            if t.done() or inspect.getcoroutinestate(coro) != inspect.CORO_SUSPENDED:
                continue
            job = coro.cr_frame.f_locals.get("job")
            if job is not None and job.name == jname:
                return True
        return False

    def _stop(self):
        self.stops_left -= 1
        inflight = set(self.unresolved())
        self.stops.append((self.sim.steps, inflight))
        # jobs whose request has not reached the server yet: stop() abandons their unsent requests
        seen = set(self.server.msg_job.values())
        self.unsent_at_stop.append((self.sim.steps, {self.jobs[k][1] for k in inflight if self.jobs[k][1] not in seen}))
        self.ctx.fault("stop")
        self.manager.stop()


def run(tape, ctx: Ctx, transport_choice=None) -> None:
    ctx.workload = "W3-stream"
    n_jobs = 1 + tape.weighted([3, 4, 3, 2, 1, 1, 1, 1], "n-jobs")
    pressure = tape.chance(1, 60, "queue-pressure?")
    if pressure:
        n_jobs = 101 + tape.draw(20, "pressure-jobs")
        ctx.fault_configured("queue-pressure")
    n_programs = 1 + tape.draw(min(3, n_jobs), "n-programs")
    transport = transport_choice or ("T2" if tape.draw(2, "transport") == 0 else "T1")
    fault_level = tape.weighted([3, 4, 3], "fault-level")      # none / low / medium
    fault_budget = [0, 1 + tape.draw(2, "budget-low"), 2 + tape.draw(5, "budget-med")][fault_level]
    kinds = {}
    if fault_level:
        for kind, w in (("break-retryable", 3), ("break-nonretryable", 1), ("break-foreign", 1),
                        ("server-error-code", 1), ("open-fail", 1), ("close-ok", 1)):
            # (a clean close by the server nearly always ends in the recorded finding, which ends the run:
            # keep it to a quarter of the faulty runs so that the other oracles keep their share)
            if tape.chance(w, w + (3 if kind == "close-ok" else 1), f"enable-{kind}"):
                kinds[kind] = 1
                ctx.fault_configured(kind)
    n_cancels = tape.weighted([5, 2, 1], "n-cancels")
    n_stops = tape.weighted([6, 1], "n-stops")
    if pressure:
        n_stops = 0   # stop() with a blocked put is outside what the property states (DESIGN §5 d)
    preexisting = []
    if tape.chance(1, 5, "preexisting-program?"):
        preexisting.append(f"{PROJECT}/programs/prog0")
        ctx.fault_configured("preexisting-program")
    jobs = []
    for k in range(n_jobs):
        p = tape.draw(n_programs, "program-of-job") if not pressure else k % n_programs
        jobs.append((f"{PROJECT}/programs/prog{p}", f"{PROJECT}/programs/prog{p}/jobs/job{k}"))
    # ... and sometimes the first job of that program exists there as well (an earlier client process created
    # program and job under these ids and went away): its submitter must get that job's result.  Drawn only
    # in runs with a pre-existing program, so the other runs keep their tape.
    preexisting_job = None
    if preexisting and tape.chance(1, 2, "preexisting-job?"):
        cand = [j for (pn, j) in jobs if pn == preexisting[0]]
        if cand:
            preexisting_job = cand[0]
            ctx.fault_configured("preexisting-job")
    failing = set()
    if tape.chance(1, 4, "job-fails?"):
        failing.add(jobs[tape.draw(n_jobs, "failing-job")][1])
        ctx.fault_configured("job-fails")
    if n_cancels:
        ctx.fault_configured("cancel")
    if n_stops:
        ctx.fault_configured("stop")
    burst = 120 if pressure else 1
    connect_stalls = tape.chance(1, 3, "connect-stalls?")
    ctx.decide("cfg", n_jobs, n_programs, transport, fault_budget, sorted(kinds), n_cancels, n_stops,
               bool(preexisting), len(failing))

    max_steps = 3000 + 400 * n_jobs
    sim = Sim(tape, ctx, max_steps=max_steps)
    with simloop.installed(sim) as loop:
        server = ModelQuantumEngine(sim, ctx, transport, fault_budget, kinds, failing, preexisting)
        server.connect_stalls = connect_stalls
        if preexisting_job is not None:
            server.jobs[preexisting_job] = server._new_job(preexisting_job)
        manager = sm.StreamManager(server.client)

        def is_subscribed(mid):
            fut = manager._response_demux._subscribers.get(mid)
            return fut is not None and not fut.done()

        server.is_subscribed = is_subscribed
        user = _User(sim, ctx, manager, loop, server, jobs, n_cancels, n_stops, burst)
        sim.add_source(server)
        sim.add_source(user)
        _drive(sim, ctx, loop, server, user, jobs, n_jobs, transport)
        _final_oracle(sim, ctx, loop, server, user, jobs, failing, transport)
        ctx.nontrivial = n_jobs >= 2
        ctx.sample = {"workload": "W3-L1", "jobs": n_jobs, "programs": n_programs, "transport": transport,
                      "fault_budget": fault_budget, "fault_kinds": sorted(kinds),
                      "breaks": [(e, k, u) for (e, _x, k, u) in server.breaks],
                      "requests": [(e, m, kd.replace("quantum_", ""), j.rsplit("/", 1)[-1], dead, lost)
                                   for (e, m, kd, j, dead, lost) in server.requests_log[:30]],
                      "cancel_rpcs": [c.rsplit("/", 1)[-1] for c in server.cancel_requests],
                      "decisions": [d[0] if len(d) == 1 else list(d) for d in ctx.decisions[:60]]}


def _all_settled(user, n_jobs) -> bool:
    return user.next >= n_jobs and not user.unresolved()


def _drive(sim, ctx, loop, server, user, jobs, n_jobs, transport) -> None:
    """Faulty phase until the user has nothing more to do and the fault budget is spent (or a
    step budget for the phase is used), then the fair phase with a liveness bound."""
    phase_cap = 600 + 60 * n_jobs
    while not _all_settled(user, n_jobs):
        if sim.steps >= phase_cap:
            break
        if server.fault_budget <= 0 and user.next >= n_jobs and user.cancels_left <= 0 and user.stops_left <= 0:
            break
        try:
            sim.fire_one(allow_time=False)
        except Deadlock:
            break
        _abstract_state(ctx, server, user, jobs)
    if _all_settled(user, n_jobs):
        _quiesce(sim, loop)
        return
    # ---- fair phase: no more faults, no more cancels/stops; every enabled event is eventually taken
    sim.fair = True
    start = sim.steps
    outstanding = len(user.unresolved()) + (n_jobs - user.next)
    bound = 60 * max(1, outstanding) + 400 + 30 * n_jobs
    while not _all_settled(user, n_jobs):
        if sim.steps - start > bound:
            raise Violation(f"{P}-HANG", _hang_text(server, user, jobs, f"not settled {bound} fair events after "
                                                                         f"the last fault", transport),
                            fingerprint=_hang_fingerprint(loop, user, transport, server, jobs))
        try:
            sim.fire_one(allow_time=False)
        except Deadlock:
            raise Violation(f"{P}-HANG", _hang_text(server, user, jobs, "nothing is enabled any more", transport),
                            fingerprint=_hang_fingerprint(loop, user, transport, server, jobs))
        _abstract_state(ctx, server, user, jobs)
    ctx.probe("w3:fair-phase")
    _quiesce(sim, loop)


def _quiesce(sim, loop) -> None:
    """Let the asyncio side run to idle (cancel RPCs in flight etc.)."""
    guard = 0
    sim.fair = True
    while True:
        evs = sim.enabled()
        # only loop steps and server deliveries matter here; jobs may stay RUNNING forever
        evs = [e for e in evs if e[0] == "loop" or e[0].startswith(("deliver", "process", "close"))]
        if not evs:
            return
        evs[0][1]()
        guard += 1
        if guard > 5000:
            raise Violation(f"{P}-HANG", "asyncio side does not become idle after all futures settled")


def _hang_text(server, user, jobs, why, transport) -> str:
    un = user.unresolved()
    return (f"{why}: futures of jobs {un} never resolve (transport {transport}); "
            f"requests read by the server: "
            f"{[(e, m, k.replace('quantum_', ''), j.rsplit('/', 1)[-1], 'dead' if d else 'live', 'LOST' if l else '') for (e, m, k, j, d, l) in server.requests_log][-12:]}; "
            f"breaks: {[(e, k, u) for (e, _x, k, u) in server.breaks]}; "
            f"request queue: {_queue_dump(user.manager)}; "
            f"streams: {[(s.epoch, 'alive' if s.alive else 'dead', 'half' if s.half_closed else '') for s in server.streams]}")


def _hang_fingerprint(loop, user, transport, server=None, jobs=()) -> str:
    """Identify *where* the client is stuck (call site), for the known-findings file."""
    if server is not None and server.clean_closes:
        # every hung job is explained by a stream the server ended without an error: its last request was
        # unanswered on that stream (nobody tells the execution coroutine to retry), or was taken off the queue
        # by that stream's request poller (no sentinel ever stops it) and dropped
        closed = {e for (e, _w) in server.clean_closes}
        waiting = {m for (_e, w) in server.clean_closes for m in w}
        explained = []
        for k in user.unresolved():
            jname = jobs[k][1]
            reqs = [(e, m, lost or dead) for (e, m, _k, j, dead, lost) in server.requests_log if j == jname]
            if reqs and ((reqs[-1][1] in waiting) or (reqs[-1][2] and reqs[-1][0] in closed)):
                explained.append(k)
        if explained and len(explained) == len(user.unresolved()):
            return f"{P}-HANG:stream-ended-without-error-by-server"
        if server.orphaned_request_iterators:
            # request iterators of cleanly ended streams are still competing for the queue: a sentinel meant for a
            # later stream may stop one of them instead, and requests go to streams that are gone
            return f"{P}-HANG:stream-ended-without-error-by-server"
    for t in asyncio.all_tasks(loop):
        coro = t.get_coro()
        if getattr(coro, "cr_code", None) is None or coro.cr_code.co_name != "_manage_stream" or t.done():
            continue
        inner = coro.cr_await
        name = getattr(getattr(inner, "cr_code", None), "co_name", "")
        q = user.manager._request_queue
        if name == "put" and q.full():
            return f"{P}-HANG:manage_stream-blocked-putting-sentinel-on-full-request-queue"
    return f"{P}-HANG:{transport}"


def _queue_dump(manager):
    out = []
    for item in list(getattr(manager._request_queue, "_queue", [])):
        out.append("None" if item is None else item.message_id)
    return out


def _abstract_state(ctx, server, user, jobs) -> None:
    # per job: (client phase, server phase) ; plus stream epoch parity
    sig = []
    for k, (pname, jname) in enumerate(jobs[:4]):
        f = user.futures.get(k)
        if f is None:
            cph = "n"
        elif f.done():
            cph = "c" if f.cancelled() else ("e" if f.exception() is not None else "d")
        else:
            kinds = [server.msg_kind[m] for m in server.msg_kind if server.msg_job[m] == jname]
            cph = {"create_quantum_program_and_job": "P", "create_quantum_job": "J",
                   "get_quantum_result": "G"}.get(kinds[-1], "?") if kinds else "s"
        j = server.jobs.get(jname)
        sph = "a" if j is None else ("p" if False else j.state[0])
        if j is None and pname in server.programs:
            sph = "p"
        sig.append(cph + sph)
    ctx.state(("w3", tuple(sig), len(server.streams) % 2))


def _final_oracle(sim, ctx, loop, server, user, jobs, failing, transport) -> None:
    m = server
    if m.problems:
        raise Violation(f"{P}-RAN-TWICE", "; ".join(m.problems))
    # message ids unique over the whole run, across stream restarts and stop()
    ids = m.all_message_ids
    if len(set(ids)) != len(ids):
        dup = sorted({i for i in ids if ids.count(i) > 1}, key=int)
        raise Violation(f"{P}-MSGID-REUSE", f"message ids {dup} were used for more than one request")
    for name, job in m.jobs.items():
        if job.executions > 1:
            raise Violation(f"{P}-RAN-TWICE", f"{name} was created {job.executions} times")
    if loop.unhandled:
        raise Violation(f"{P}-SUT-EXCEPTION", f"exception reported to the event loop: {loop.unhandled[0]}",
                        fingerprint=f"{P}-SUT-EXCEPTION:loop-handler")

    injected = {id(exc): (epoch, kind, un) for (epoch, exc, kind, un) in m.breaks}
    stop_happened = bool(user.stops)
    for k, (pname, jname) in enumerate(jobs):
        f = user.futures[k]
        short = jname.rsplit("/", 1)[-1]
        mids = [mid for mid, j in m.msg_job.items() if j == jname]
        nonretry_codes = [(mid, m.error_delivered[mid]) for mid in mids
                          if mid in m.error_delivered and m.error_delivered[mid] in NONRETRYABLE_CODES]
        user_cancelled = k in user.cancelled
        in_stop = any(k in inflight for (_s, inflight) in user.stops)
        if f.cancelled():
            if not (user_cancelled or in_stop):
                raise Violation(f"{P}-WRONG-ERROR", f"{short}: future cancelled although nobody cancelled it "
                                                    f"and stop() was not called while it was in flight")
            outcome = "cancelled"
        else:
            exc = f.exception()
            if exc is None:
                res = f.result()
                if isinstance(res, quantum.QuantumResult):
                    if res.parent != jname:
                        raise Violation(f"{P}-WRONG-RESULT", f"{short} resolved with the result of {res.parent}")
                    if jname in failing:
                        raise Violation(f"{P}-WRONG-RESULT", f"{short} failed on the server but a result came back")
                elif isinstance(res, quantum.QuantumJob):
                    if res.name != jname:
                        raise Violation(f"{P}-WRONG-RESULT", f"{short} resolved with the job {res.name}")
                    if jname not in failing:
                        raise Violation(f"{P}-WRONG-RESULT", f"{short} succeeded but a failed job came back")
                else:
                    raise Violation(f"{P}-WRONG-RESULT", f"{short} resolved with {type(res).__name__}")
                if m.jobs.get(jname) is None or m.jobs[jname].state == "RUNNING":
                    raise Violation(f"{P}-WRONG-RESULT", f"{short} resolved before its job finished on the server")
                outcome = "result"
            elif isinstance(exc, asyncio.CancelledError) or isinstance(exc, concurrent.futures.CancelledError):
                if not (user_cancelled or in_stop):
                    raise Violation(f"{P}-WRONG-ERROR", f"{short}: CancelledError without cancel/stop")
                outcome = "cancelled"
            elif isinstance(exc, sm.StreamError):
                if not nonretry_codes:
                    codes = [(mid, m.error_delivered[mid]) for mid in mids if mid in m.error_delivered]
                    raise Violation(f"{P}-RETRYABLE-SURFACED",
                                    f"{short} failed with StreamError({exc}) but the server only ever answered "
                                    f"its requests with {[(mid, quantum.StreamError.Code(c).name) for mid, c in codes]} "
                                    f"(request kinds {[m.msg_kind[x].replace('quantum_', '') for x in mids]})")
                outcome = "stream-error"
            elif id(exc) in injected:
                epoch, kind, un = injected[id(exc)]
                if kind == "break-retryable":
                    raise Violation(f"{P}-RETRYABLE-SURFACED",
                                    f"{short} failed with the retryable stream failure {type(exc).__name__}")
                outcome = "break-surfaced"
            else:
                raise Violation(f"{P}-WRONG-ERROR", f"{short} failed with {type(exc).__name__}: {exc}, which was "
                                                    f"never injected")
        # a delivered non-retryable error code must surface (unless the caller went away first)
        if nonretry_codes and outcome not in ("stream-error", "cancelled", "break-surfaced"):
            raise Violation(f"{P}-NONRETRYABLE-SWALLOWED",
                            f"{short}: server answered {[(mid, quantum.StreamError.Code(c).name) for mid, c in nonretry_codes]} "
                            f"but the caller got '{outcome}'")
        # a non-retryable break that hit an unanswered request of this job must surface
        for (epoch, bexc, kind, un) in m.breaks:
            if kind == "break-retryable":
                continue
            hit = [mid for mid in un if m.msg_job.get(mid) == jname]
            if hit and outcome not in ("break-surfaced", "cancelled", "stream-error"):
                raise Violation(f"{P}-NONRETRYABLE-SWALLOWED",
                                f"{short}: stream {epoch} died with {type(bexc).__name__} while request(s) {hit} "
                                f"awaited a reply, but the caller got '{outcome}'")
            if hit and outcome == "break-surfaced" and f.exception() is not bexc and id(f.exception()) not in injected:
                raise Violation(f"{P}-WRONG-ERROR", f"{short}: surfaced a different error")
        # cancellation reaches the server
        if user_cancelled:
            info = user.cancelled[k]
            n_cancel = m.cancel_requests.count(jname)
            if n_cancel > 1:
                raise Violation(f"{P}-CANCEL-LOST", f"{short}: {n_cancel} cancel RPCs for one cancellation")
            later_fatal_break = any(kind != "break-retryable" for (_e, _x, kind, _u) in m.breaks)
            if info["exec_suspended"] and not m.final_delivered.get(jname) and outcome == "cancelled" \
                    and n_cancel == 0 and not _error_final(m, mids) and not later_fatal_break:
                raise Violation(f"{P}-CANCEL-LOST",
                                f"{short} was cancelled after its request had been queued (requests {mids}) and no "
                                f"final reply ever reached the client, but the server never received "
                                f"cancel_quantum_job for it (cancel RPCs: "
                                f"{[c.rsplit('/', 1)[-1] for c in m.cancel_requests]})")
            if n_cancel:
                ctx.probe("w3:cancel-rpc-sent")
            # ... and takes effect there: a job that the server created only *after* the one cancel RPC for it
            # had come and gone (the create request was still queued when the caller cancelled) runs on with
            # nobody left to fetch or cancel it, although its submitter holds a cancelled future
            # (Only the case the client controls: no request for the job had left the client's queue when it
            # issued the cancel RPC.  A cancel that overtakes a create already on the wire is the server's race.)
            sj = m.jobs.get(jname)
            first_read = min([m.read_step[x] for x in mids if x in m.read_step], default=None)
            if (outcome == "cancelled" and sj is not None and n_cancel and first_read is not None
                    and first_read > max(m.cancel_steps[jname]) and sj.created_step > first_read):
                raise Violation(f"{P}-CANCEL-INEFFECTIVE",
                                f"{short}: cancelled by its submitter at event {info['step']}; the client issued "
                                f"cancel_quantum_job at event {max(m.cancel_steps[jname])}, when none of its requests "
                                f"{mids} had left the request queue; the queued request was sent afterwards (event "
                                f"{first_read}) and the server created the job at event {sj.created_step} (state at the "
                                f"end: {sj.state})",
                                fingerprint=f"{P}-CANCEL-INEFFECTIVE:create-request-still-queued-at-cancel")
        if outcome == "result" and len(mids) > 1:
            ctx.probe("w3:result-after-retry")
    # cancel RPCs only for jobs the user cancelled or that were in flight at a stop()
    for name in m.cancel_requests:
        ks = [k for k, (_p, j) in enumerate(jobs) if j == name]
        ok = ks and (ks[0] in user.cancelled or any(ks[0] in inflight for (_s, inflight) in user.stops))
        if not ok:
            raise Violation(f"{P}-CANCEL-WRONG-JOB", f"cancel_quantum_job({name}) although that job was never "
                                                     f"cancelled by its submitter")
    # stop() cancels the futures of the jobs in flight; a request that had not been sent by then must not be
    # sent afterwards (the caller was told "cancelled", and the cancel RPC for it is long gone)
    for stop_step, names in user.unsent_at_stop:
        if names:
            ctx.probe("w3:stop-with-unsent-request")
        for mid, jname in m.msg_job.items():
            if jname in names and m.read_step.get(mid, -1) > stop_step:
                raise Violation(f"{P}-STOP-RESURRECTED",
                                f"{jname.rsplit('/', 1)[-1]}: its submit future was cancelled by stop() before any "
                                f"request for it had reached the server, yet request {mid} "
                                f"({m.msg_kind[mid].replace('quantum_', '')}) was sent on a later stream")
    if user.submitted_after_stop:
        ctx.probe("w3:submit-after-stop")
    _ = stop_happened


def _error_final(m, mids) -> bool:
    return any(mid in m.error_delivered and m.error_delivered[mid] in NONRETRYABLE_CODES for mid in mids)
