"""C20 workload W3-L2: Engine.run_sweep_async -> EngineJob.results_async through the real
EngineClient, StreamManager and AsyncioExecutor, against the model Quantum Engine (stream +
unary RPCs), under the simulated duet scheduler, asyncio loop and clock.

Real: cirq_google.Engine / EngineContext / EngineJob (result decoding, StreamError -> polling
fallback, NOT_FOUND -> recreate-once, 1 s polling loop, timeout_scope), EngineClient
(_run_retry_async exponential back-off), StreamManager, AsyncioExecutor.submit, duet.
Simulated: the event loop, the clock (back-off and polling cost nothing), the server.
"""
from __future__ import annotations

import numpy as np
from google.protobuf import any_pb2

import cirq
import cirq_google as cg
import duet
import google.api_core.exceptions as gexc
from cirq_google.api import v2
from cirq_google.engine import engine_client, stream_manager as sm
from cirq_google.engine.engine import TYPE_PREFIX

from engines import simduet, simloop
from engines.qe_model import ModelQuantumEngine
from engines.sim import Sim, SimHang
from simkit.core import Ctx, StepCapExceeded, Violation

P = "C20"
PROJECT = "proj"
Q = cirq.GridQubit(0, 0)
QS = [cirq.GridQubit(0, i) for i in range(8)]


def _job_index(job_name: str) -> int:
    return int(job_name.rsplit("/job", 1)[-1])


def _result_any(job_name: str, reps: int) -> any_pb2.Any:
    k = _job_index(job_name)
    bits = np.array([[(k >> i) & 1 for i in range(8)]] * reps, dtype=np.uint8)
    res = cirq.ResultDict(params=cirq.ParamResolver({}), records={"m": bits.reshape(reps, 1, 8)})
    info = v2.MeasureInfo(key="m", qubits=QS, instances=1, invert_mask=[False] * 8, tags=[])
    proto = v2.results_to_proto([[res]], [info])
    return any_pb2.Any(type_url=TYPE_PREFIX + "cirq.google.api.v2.Result", value=proto.SerializeToString())


def run(tape, ctx: Ctx) -> None:
    ctx.workload = "W3-L2-engine"
    n_jobs = 1 + tape.weighted([3, 4, 3, 2, 1], "n-jobs")
    n_programs = 1 + tape.draw(min(2, n_jobs), "n-programs")
    transport = "T2" if tape.draw(2, "transport") == 0 else "T1"
    fault_level = tape.weighted([3, 4, 3], "fault-level")
    fault_budget = [0, 1 + tape.draw(2, "budget-low"), 2 + tape.draw(4, "budget-med")][fault_level]
    kinds = {}
    if fault_level:
        for kind, w in (("break-retryable", 3), ("break-nonretryable", 1), ("server-error-code", 2),
                        ("unary-5xx", 3), ("unary-4xx", 1)):
            if tape.chance(w, w + 1, f"enable-{kind}"):
                kinds[kind] = 1
                ctx.fault_configured(kind)
        if kinds.get("unary-5xx") and tape.chance(1, 3, "enable-unary-5xx-after"):
            kinds["unary-5xx-after"] = 1      # some 5xx replies come after the server did the work
            ctx.fault_configured("unary-5xx-after-processing")
    timeout_s = [600, 30, 5][tape.weighted([4, 2, 1], "timeout")]
    max_retry = [3600, 1, 10][tape.weighted([4, 1, 1], "max-retry-delay")]
    reps = 1 + tape.draw(3, "reps")
    jobs = []
    for k in range(n_jobs):
        p = tape.draw(n_programs, "program-of-job")
        jobs.append((f"prog{p}", f"job{k}"))
    failing = set()
    if tape.chance(1, 5, "job-fails?"):
        k = tape.draw(n_jobs, "failing-job")
        failing.add(f"projects/{PROJECT}/programs/{jobs[k][0]}/jobs/{jobs[k][1]}")
        ctx.fault_configured("job-fails")
    streaming = not tape.chance(1, 3, "no-streaming?")
    if not streaming:
        ctx.probe("l2:unary-only-mode")
    cancel_job_k = tape.draw(n_jobs, "cancel-which") if tape.chance(1, 4, "user-cancels-a-job?") else None
    cancel_delay = [0.0, 0.5, 2.0, 7.0][tape.draw(4, "cancel-delay")]
    if cancel_job_k is not None:
        ctx.fault_configured("cancel")
    # the caller gives up on one job: the task awaiting EngineJob.results_async() is cancelled by a deadline of its
    # own (duet.timeout_scope), which is how samplers, collectors and scopes cancel -- not a .cancel() on a future
    abandon_k = None
    if streaming and tape.chance(1, 5, "caller-abandons-a-job?"):
        abandon_k = tape.draw(n_jobs, "abandon-which")
        if abandon_k == cancel_job_k:
            abandon_k = None
    abandon_after = [0.3, 1.5, 5.0][tape.draw(3, "abandon-after")]
    if abandon_k is not None:
        ctx.fault_configured("caller-abandons")
    ctx.decide("cfg", n_jobs, n_programs, transport, fault_budget, sorted(kinds), timeout_s, max_retry, len(failing),
               cancel_job_k, cancel_delay, streaming)

    sim = Sim(tape, ctx, max_steps=6000 + 1500 * n_jobs)
    t_start = sim.now
    circuit = cirq.Circuit(cirq.X(Q), cirq.measure(*QS, key="m"))
    outcomes = {}
    cancelled = {}
    loop_busy = {}
    externally_cancelled = set()
    fair_since = {"t": None}

    with simloop.installed(sim) as loop:
        server = ModelQuantumEngine(sim, ctx, transport, fault_budget, kinds, failing, ())
        server.result_factory = lambda name: _result_any(name, reps)
        if kinds.get("unary-5xx") and max_retry <= 10 and tape.chance(1, 2, "many-transient-errors?"):
            # a long history of isolated transient errors on one client (each call sees one or two): what one
            # call leaves behind in the client must not shorten the patience of the next
            server.unary_fault_budget = 6 + tape.draw(6, "unary-budget")
            server.unary_fault_spread = True
            ctx.probe("l2:many-transient-unary-errors")
        server.connect_stalls = tape.chance(1, 4, "connect-stalls?")
        if tape.chance(1, 3, "slow-jobs?"):
            durations = {f"projects/{PROJECT}/programs/{p}/jobs/{j}": [0.0, 2.5, 12.0, 90.0][tape.draw(4, "job-duration")]
                         for (p, j) in jobs}
            server.job_duration = lambda name: durations.get(name, 0.0)
            server.cancel_latency = [0.0, 1.5, 4.0][tape.draw(3, "cancel-latency")]
            ctx.fault_configured("job-slow")
        if abandon_k is not None:
            # the abandoned job runs long enough to be still running when its caller gives up
            base_duration = getattr(server, "job_duration", None)
            ab_name = f"projects/{PROJECT}/programs/{jobs[abandon_k][0]}/jobs/{jobs[abandon_k][1]}"
            server.job_duration = lambda name, b=base_duration: 60.0 if name == ab_name else (b(name) if b else 0.0)
        outage_len = None
        if tape.chance(1, 6, "unary-outage?"):
            outage_len = [0.25, 1.2, 5.0, 40.0][tape.draw(4, "outage-len")]
            server.outage_until = sim.now + outage_len
            ctx.fault_configured("unary-outage")
        sim.add_timer_source(server)
        if tape.chance(1, 5, "external-cancel?"):
            # somebody else (another client, an operator) cancels one of the jobs while it runs
            kx = tape.draw(n_jobs, "external-cancel-which")
            server.external_cancel = {f"projects/{PROJECT}/programs/{jobs[kx][0]}/jobs/{jobs[kx][1]}"}
            externally_cancelled.add(kx)
            ctx.fault_configured("external-cancel")
        client = engine_client.EngineClient(verbose=False, max_retry_delay_seconds=max_retry)
        client.__dict__["grpc_client"] = server.client          # cached_property slot
        context = cg.engine.engine.EngineContext(client=client, timeout=timeout_s, enable_streaming=streaming)
        engine = cg.Engine(project_id=PROJECT, context=context)
        manager = client._stream_manager

        def is_subscribed(mid):
            fut = manager._response_demux._subscribers.get(mid)
            return fut is not None and not fut.done()

        server.is_subscribed = is_subscribed
        sim.add_source(server)
        started = {"n": 0}
        stop_faults_at = 500 + 150 * n_jobs

        def on_step(label):
            if not sim.fair and (sim.steps >= stop_faults_at or
                                 (server.fault_budget <= 0 and server.unary_fault_budget <= 0)):
                sim.fair = True
                fair_since["t"] = sim.now
                ctx.probe("l2:fair-phase")
            ctx.state(("l2", len(server.streams) % 3, min(len(server.unary_pending), 3),
                       tuple(sorted(j.state[0] for j in server.jobs.values()))[:5]))

        sim.on_step = on_step

        async def one_job(k: int):
            prog_id, job_id = jobs[k]
            try:
                job = await engine.run_sweep_async(program=circuit, program_id=prog_id, job_id=job_id,
                                                   params=None, repetitions=reps, processor_id="proc")
                started["n"] += 1
                if k == abandon_k:
                    try:
                        async with duet.timeout_scope(abandon_after):
                            results = await job.results_async()
                    except TimeoutError:
                        ctx.fault("caller-abandons")
                        outcomes[k] = ("abandoned", None, sim.now)
                        return
                else:
                    results = await job.results_async()
                outcomes[k] = ("ok", results, sim.now)
            except Violation:
                raise
            except (SimHang, StepCapExceeded):
                raise
            except Exception as e:  # noqa: BLE001 - classified by the oracle below
                outcomes[k] = ("error", e, sim.now)
                loop_busy[k] = loop.has_ready()     # replies still travelling between the two "threads"?

        async def cancel_later(k: int):
            # the user cancels one of their jobs through the public client call, some time after submitting
            prog_id, job_id = jobs[k]
            await duet.sleep(cancel_delay + 0.001)
            try:
                ctx.fault("cancel")
                await client.cancel_job_async(PROJECT, prog_id, job_id)
                cancelled["rpc_done"] = True
            except Exception as e:  # noqa: BLE001 - e.g. NOT_FOUND when the job does not exist yet
                cancelled["error"] = e

        async def main():
            async with duet.new_scope() as scope:
                for k in range(n_jobs):
                    scope.spawn(one_job, k)
                if cancel_job_k is not None:
                    scope.spawn(cancel_later, cancel_job_k)

        with simduet.installed(sim):
            try:
                duet.run(main)
            except Violation:
                raise
            except SimHang as e:
                raise Violation(f"{P}-HANG", f"L2: results_async never returns for jobs "
                                             f"{[k for k in range(n_jobs) if k not in outcomes]}: {e}; "
                                             f"unary log tail {server.unary_log[-8:]}; breaks "
                                             f"{[(ep, kd) for (ep, _x, kd, _u) in server.breaks]}",
                                fingerprint=_l2_hang_fp(loop, manager, transport))
            except StepCapExceeded as e:
                raise Violation(f"{P}-HANG", f"L2: not finished within {sim.max_steps} events ({e}); outcomes so far "
                                             f"{sorted(outcomes)}; unary log tail {server.unary_log[-8:]}",
                                fingerprint=_l2_hang_fp(loop, manager, transport))
        elapsed = sim.now - t_start
        if abandon_k is not None:
            # the caller is gone; what its cancellation set in motion on the asyncio side (the execution coroutine
            # being cancelled, the cancel RPC) still has to run
            from checks.c20_w3 import _quiesce
            _quiesce(sim, loop)
        _oracle(ctx, server, jobs, failing, outcomes, n_jobs, reps, elapsed, timeout_s, max_retry, cancel_job_k,
                t_start, loop_busy, fair_since["t"], outage_len)
        ctx.sim_time += 0.0
        ctx.nontrivial = n_jobs >= 2
        if elapsed > 60:
            ctx.probe("l2:minutes-of-virtual-time")
        ctx.sample = {"workload": "W3-L2", "jobs": n_jobs, "transport": transport, "fault_budget": fault_budget,
                      "fault_kinds": sorted(kinds), "timeout_s": timeout_s, "virtual_seconds": round(elapsed, 3),
                      "outcomes": {k: (o[0] if o[0] == "ok" else type(o[1]).__name__) for k, o in sorted(outcomes.items())},
                      "unary_calls": server.unary_log[:25],
                      "breaks": [(e, kd) for (e, _x, kd, _u) in server.breaks]}


def _l2_hang_fp(loop, manager, transport) -> str:
    import asyncio
    for t in asyncio.all_tasks(loop):
        coro = t.get_coro()
        if getattr(coro, "cr_code", None) is None or coro.cr_code.co_name != "_manage_stream" or t.done():
            continue
        inner = coro.cr_await
        name = getattr(getattr(inner, "cr_code", None), "co_name", "")
        if name == "put" and manager._request_queue.full():
            return f"{P}-HANG:manage_stream-blocked-putting-sentinel-on-full-request-queue"
    return f"{P}-HANG:L2:{transport}"


def _oracle(ctx, server, jobs, failing, outcomes, n_jobs, reps, elapsed, timeout_s, max_retry, cancel_job_k=None,
            t_start=0.0, loop_busy=None, fair_since=None, outage_len=None) -> None:
    injected_breaks = {id(exc): kind for (_e, exc, kind, _u) in server.breaks}
    injected_unary = {id(e) for e in server.injected_unary}
    nonretry_unary = [e for e in server.injected_unary if getattr(e, "code", 500) not in (500, 503)]
    for k in range(n_jobs):
        prog_id, job_id = jobs[k]
        jname = f"projects/{PROJECT}/programs/{prog_id}/jobs/{job_id}"
        if k not in outcomes:
            raise Violation(f"{P}-L2-LOST", f"{job_id}: neither a result nor an error reached the caller")
        kind, val, t_out = outcomes[k]
        sjob0 = server.jobs.get(jname)
        if kind == "abandoned":
            # cancellation cancels the remote job: the job was running on the server when its caller gave up
            # (it runs for a minute), no stream trouble interfered, so a cancel RPC for it has to have arrived
            ctx.probe("l2:caller-abandoned-a-job")
            if (sjob0 is not None and (sjob0.terminal_at is None or sjob0.terminal_at > t_out or sjob0.state == "CANCELLED")
                    and not server.breaks and not server.clean_closes and not server.injected_unary
                    and not server.open_failures and jname not in server.cancel_requests
                    and sjob0.created_step >= 0 and jname not in server.created_by_unary):
                # (only the stream path promises this: a job that EngineJob re-created through the unary RPCs after a
                # stream error is polled, and giving up on a poll cancels nothing remotely)
                raise Violation(f"{P}-CANCEL-LOST",
                                f"{job_id}: its caller stopped waiting for results_async() after "
                                f"{t_out - t_start:.1f}s (deadline of the awaiting task) while the job was running on "
                                f"the server (state now {sjob0.state}); no cancel_quantum_job for it was ever sent "
                                f"(cancel RPCs: {[c.rsplit('/', 1)[-1] for c in server.cancel_requests]})")
            continue
        if kind == "ok":
            if jname in failing:
                raise Violation(f"{P}-L2-WRONG-RESULT", f"{job_id} failed on the server but results came back")
            if len(val) != 1:
                raise Violation(f"{P}-L2-WRONG-RESULT", f"{job_id}: {len(val)} results for one sweep point")
            r = val[0]
            got = r.measurements.get("m")
            want = np.array([[(k >> i) & 1 for i in range(8)]] * reps, dtype=np.uint8)
            if got is None or got.shape != want.shape or not np.array_equal(got, want):
                raise Violation(f"{P}-L2-WRONG-RESULT",
                                f"{job_id} received results that are not its own: "
                                f"{None if got is None else got.tolist()} (expected the bit pattern of {k})")
            if getattr(r, "job_id", job_id) != job_id:
                raise Violation(f"{P}-L2-WRONG-RESULT", f"{job_id} received an EngineResult labelled {r.job_id}")
            sjob = server.jobs.get(jname)
            if sjob is None or sjob.state != "DONE":
                raise Violation(f"{P}-L2-WRONG-RESULT", f"{job_id} returned results although the server never "
                                                        f"finished that job")
            ctx.probe("l2:result")
            continue
        e = val
        ok = False
        why = ""
        if isinstance(e, RuntimeError) and jname in failing and "failed" in str(e).lower():
            ok, why = True, "job-failed"
        elif id(e) in injected_breaks and injected_breaks[id(e)] != "break-retryable":
            ok, why = True, "nonretryable-break"
        elif isinstance(e, engine_client.EngineException) and nonretry_unary:
            ok, why = True, "unary-4xx"
        elif isinstance(e, engine_client.EngineException) and getattr(e, "code", None) == 404:
            # NOT_FOUND after the one allowed re-creation also failed to stick is only legitimate when a
            # non-retryable fault interfered; with none injected it is a lost job
            ok, why = bool(nonretry_unary or any(kd != "break-retryable" for kd in injected_breaks.values())), "404"
        elif (isinstance(e, RuntimeError) and sjob0 is not None and sjob0.state == "CANCELLED"
              and jname in server.cancel_requests and "CANCELLED" in str(e)):
            ok, why = True, "job-cancelled"
        elif isinstance(e, TimeoutError) or (isinstance(e, RuntimeError) and "Timed out waiting" in str(e)):
            # context.timeout really elapsed on the virtual clock while the job was not (or only just) terminal
            # on the server, or the back-off of injected unary failures exceeded max_retry_delay_seconds
            waited = t_out - t_start
            polls = [v for v in server.unary_times.values() if v[0] == "get_quantum_job" and v[1] == job_id]
            done_polls = [v for v in polls if v[3] is not None and v[4] == "ok"]
            pending_poll = any(v[3] is None for v in polls)
            if "Reached max retry attempts" in str(e) and outage_len is None and server.injected_unary:
                # injected 5xx replies only: one call gives up when its own consecutive failures outnumber the
                # back-off steps 0.1, 0.2, 0.4, ... <= max_retry_delay_seconds -- however many failures *other*
                # calls of the same client have seen before
                need, d = 1, 0.1
                while d <= max_retry:
                    need += 1
                    d *= 2
                streak, worst = {}, 0
                for (nm, tgt, outcome, src) in server.unary_log:
                    if src.startswith("injected") and outcome in ("InternalServerError", "ServiceUnavailable"):
                        streak[(nm, tgt)] = streak.get((nm, tgt), 0) + 1
                        worst = max(worst, streak[(nm, tgt)])
                    else:
                        streak[(nm, tgt)] = 0
                if worst < need:
                    raise Violation(f"{P}-L2-RETRY-GAVE-UP-EARLY",
                                    f"{job_id}: 'Reached max retry attempts' although no call saw more than {worst} "
                                    f"consecutive 5xx replies and max_retry_delay_seconds={max_retry} allows {need - 1} "
                                    f"retries per call (unary log tail {server.unary_log[-8:]})")
                ok, why = True, "retry-exhausted"
            elif "Reached max retry attempts" in str(e) and outage_len is not None and not server.injected_unary:
                # exponential back-off 0.1, 0.2, 0.4, ... is retried while the delay is <= max_retry_delay_seconds:
                # giving up is only legitimate if the outage outlasted the delays that had to be tried
                allowed, d = 0.0, 0.1
                while d <= max_retry:
                    allowed += d
                    d *= 2
                if outage_len < allowed - 0.05:
                    raise Violation(f"{P}-L2-RETRY-GAVE-UP-EARLY",
                                    f"{job_id}: 'Reached max retry attempts' after an outage of {outage_len}s although "
                                    f"max_retry_delay_seconds={max_retry} allows {allowed:.1f}s of back-off")
                ok, why = True, "retry-exhausted"
            elif (server.injected_unary or server.outage_failures) and (max_retry <= 10 or waited >= timeout_s):
                ok, why = True, "timeout"
            elif waited + 1e-6 >= timeout_s:
                # the polling loop asks once a second until the job is terminal; a caller that times out must
                # have had a poll outstanding, or have completed one within the last poll interval
                last_done = max((v[3] for v in done_polls), default=None)
                # (only judged in the fair phase: while faults flow the scheduler may starve the asyncio side
                # or jump the clock past a deadline with replies still in flight)
                if (polls and not pending_poll and last_done is not None and t_out - last_done > 3.0
                        and fair_since is not None and last_done >= fair_since
                        and not (loop_busy or {}).get(k, False)):
                    raise Violation(f"{P}-L2-STOPPED-POLLING",
                                    f"{job_id}: the caller timed out at +{t_out - t_start:.1f}s but its last "
                                    f"get_quantum_job completed at +{last_done - t_start:.1f}s and none was "
                                    f"outstanding: it stopped polling {t_out - last_done:.1f}s before giving up "
                                    f"(server job state {sjob0.state if sjob0 else None})")
                ok, why = True, "timeout"
        if not ok:
            cls = f"{P}-L2-UNJUSTIFIED-ERROR"
            if id(e) in injected_breaks or isinstance(e, sm.StreamError) or id(e) in injected_unary:
                cls = f"{P}-RETRYABLE-SURFACED"
            fp = None
            status = getattr(getattr(e, "__cause__", None), "code", None) or getattr(e, "code", None)
            if (cls.endswith("UNJUSTIFIED-ERROR") and "already exists" in str(e)
                    and any(nm.startswith("create_") for (nm, _t) in server.processed_then_failed)):
                # a create whose 5xx reply came *after* the server had done the work was re-sent as is
                fp = f"{P}-L2-UNJUSTIFIED-ERROR:create-resent-after-lost-reply"
            _ = status
            raise Violation(cls, f"{job_id}: the caller of results_async got {type(e).__name__}: {e} "
                                 f"(virtual time elapsed {elapsed:.1f}s, timeout {timeout_s}s, injected breaks "
                                 f"{sorted(injected_breaks.values())}, injected unary failures "
                                 f"{[type(x).__name__ for x in server.injected_unary]}, unary log tail "
                                 f"{server.unary_log[-6:]})", fingerprint=fp)
        ctx.probe("l2:error:" + why)
        if why == "job-cancelled":
            ctx.probe("l2:cancelled-job-surfaces")
    for name, job in server.jobs.items():
        if job.executions > 1:
            raise Violation(f"{P}-RAN-TWICE", f"{name} was created {job.executions} times")
    if server.problems:
        raise Violation(f"{P}-RAN-TWICE", "; ".join(server.problems))
    ids = server.all_message_ids
    if len(set(ids)) != len(ids):
        raise Violation(f"{P}-MSGID-REUSE", "message ids reused")
    if any(n == "create_quantum_job" for (n, _t, _o, _s) in server.unary_log):
        ctx.probe("l2:recreate-path")
    if any(n == "get_quantum_job" for (n, _t, _o, _s) in server.unary_log):
        ctx.probe("l2:polling-fallback")
    if any(o not in ("ok",) and s == "injected" for (_n, _t, o, s) in server.unary_log):
        ctx.probe("l2:unary-fault-fired")
