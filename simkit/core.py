"""Run context, violation type, and the base class of a check."""
from __future__ import annotations

import hashlib
import os
import traceback
from collections import Counter
from typing import Any, Dict, List, Optional

from simkit import repoenv


class Violation(Exception):
    """An oracle failed.  `cls` is the violation class (e.g. C20-DUP-RESULT);
    `fingerprint` identifies the specific failing site/input for the
    known-findings file (defaults to the class)."""

    def __init__(self, cls: str, message: str, fingerprint: Optional[str] = None):
        super().__init__(f"{cls}: {message}")
        self.cls = cls
        self.message = message
        self.fingerprint = fingerprint or cls


class HarnessError(Exception):
    pass


class StepCapExceeded(HarnessError):
    pass


class Ctx:
    """Per-run recorder.  Nothing here draws from the tape or reads a clock."""

    __slots__ = ("log", "decisions", "faults_configured", "faults_fired", "probes",
                 "states", "sim_time", "steps", "sample", "nontrivial", "workload", "keep_log", "frozen")

    def __init__(self, keep_log: bool = False):
        self.log: List[Any] = []          # decoded event log (kept only for replays / samples)
        self.decisions: List[Any] = []    # the decoded nondeterministic decisions (digest source)
        self.faults_configured: Counter = Counter()
        self.faults_fired: Counter = Counter()
        self.probes: Counter = Counter()
        self.states: set = set()
        self.sim_time = 0.0
        self.steps = 0
        self.sample: Any = None
        self.nontrivial = False
        self.workload = ""
        self.keep_log = keep_log
        self.frozen = False   # set at teardown: nothing that happens while unwinding is part of the run

    def event(self, *ev) -> None:
        if not self.frozen:
            self.log.append(ev)

    def decide(self, *d) -> None:
        if self.frozen:
            return
        self.decisions.append(d)
        self.log.append(("decide",) + d)

    def fault_configured(self, kind: str) -> None:
        self.faults_configured[kind] += 1

    def fault(self, kind: str) -> None:
        if not self.frozen:
            self.faults_fired[kind] += 1

    def probe(self, name: str, n: int = 1) -> None:
        if not self.frozen:
            self.probes[name] += n

    def state(self, s) -> None:
        self.states.add(s)

    def digest(self) -> int:
        h = hashlib.blake2b(repr(self.decisions).encode(), digest_size=8).digest()
        return int.from_bytes(h, "big")

    def log_digest(self) -> str:
        return hashlib.sha256(repr(self.log).encode()).hexdigest()[:16]


class Check:
    """Base class: a check module defines one subclass instance `CHECK`."""

    property_id = "C??"
    engine = ""
    technique = "deterministic simulation with fault injection"
    rule = ""
    assumptions: List[str] = []
    real_vs_stub: Dict[str, str] = {}
    state_measure = ""
    # tier -> {"runs": int, "wall": seconds}
    tiers: Dict[str, Dict[str, float]] = {
        "quick": {"runs": 2000, "wall": 60},
        "thorough": {"runs": 200000, "wall": 900},
    }
    per_run_timeout = 120  # seconds; a single run exceeding this is a harness error
    expected_probes: List[str] = []

    def setup(self) -> None:
        """Import the code under test (called once, before workers fork)."""

    def run_one(self, tape, ctx: Ctx) -> None:
        raise NotImplementedError

    # -- classification of unexpected exceptions -------------------------------------
    def classify_exception(self, exc: BaseException) -> Optional[Violation]:
        """An exception escaping run_one: SUT-EXCEPTION if its innermost frame that
        belongs to either tree is under VERIF_REPO, else a harness error (None)."""
        root = repoenv.repo_root() + os.sep
        verif = repoenv.VERIF_DIR + os.sep
        frames = traceback.extract_tb(exc.__traceback__)
        for fr in reversed(frames):
            fn = os.path.realpath(fr.filename)
            if getattr(exc, "sut_fault", False) and fn.endswith(os.path.join("engines", "scripted_prng.py")):
                continue   # the scripted generator rejecting its arguments exactly as numpy would
            if fn.startswith(verif):
                return None
            if fn.startswith(root):
                rel = fn[len(root):]
                cls = f"{self.property_id}-SUT-EXCEPTION"
                msg = f"{type(exc).__name__}: {exc} at {rel}:{fr.lineno} in {fr.name}"
                return Violation(cls, msg, fingerprint=f"{cls}:{type(exc).__name__}@{rel}:{fr.name}")
        return None
