"""C20 workload W1: cirq.Collector.collect under the simulated duet scheduler.

Real: duet (tasks, scopes, AsyncCollector), cirq.Collector.collect/collect_async,
cirq.Sampler.run_async and the sync/async alternative shims, PauliSumCollector.
Simulated: when each in-flight job's future completes (order from the tape),
the clock, injected job failures and callback failures.
"""
from __future__ import annotations

import numpy as np

import cirq
import duet

from engines import simduet
from engines.sim import Sim, SimHang
from simkit.core import Ctx, StepCapExceeded, Violation

P = "C20"


class InjectedJobError(Exception):
    pass


class InjectedCallbackError(Exception):
    pass


class _World:
    """Event log + oracles shared by the scripted collector and the fake sampler."""

    def __init__(self, sim: Sim, ctx: Ctx, concurrency: int, budget):
        self.sim = sim
        self.ctx = ctx
        self.concurrency = concurrency
        self.budget = budget
        self.failure = None
        self.started = []            # job ids in start order
        self.started_reps = 0
        self.completed = set()       # completion event fired (result or error available)
        self.delivered = []          # job ids passed to on_job_result
        self.issued = []             # job ids handed out by next_job, in order
        self.reps = {}
        self.clog = []               # collector-visible log: ("ask", n) / ("result", id)
        self.returned = False
        self.pending = {}            # job id -> (future, outcome)
        self.errors_fired = []
        self.circuit_of = {}

    def fail(self, cls: str, msg: str) -> None:
        if self.failure is None:
            self.failure = Violation(cls, msg)

    # event source protocol: completions of in-flight jobs
    def enabled(self):
        return [(f"complete:{jid}", (lambda j=jid: self._complete(j))) for jid in self.pending]

    def _complete(self, jid) -> None:
        fut, outcome = self.pending.pop(jid)
        self.completed.add(jid)
        if isinstance(outcome, Exception):
            self.errors_fired.append(outcome)
            self.ctx.fault("job-error")
            fut.try_set_exception(outcome)
        else:
            fut.try_set_result(None)

    # oracle pieces ----------------------------------------------------------------------------
    def on_start(self, jid: int) -> None:
        if self.returned:
            self.fail(f"{P}-UNCLEAN-STOP", f"job {jid} started after collect() returned")
        if jid in self.started:
            self.fail(f"{P}-RAN-TWICE", f"job {jid} was started twice")
        if self.budget is not None and self.started_reps >= self.budget:
            self.fail(f"{P}-BUDGET", f"job {jid} started although {self.started_reps} >= budget "
                                     f"{self.budget} repetitions were already started")
        self.started.append(jid)
        self.started_reps += self.reps[jid]
        inflight = len(self.started) - len(self.completed)
        self.ctx.state(("w1", min(inflight, 6), len(self.delivered) > 0))
        if inflight > self.concurrency:
            self.fail(f"{P}-CONCURRENCY", f"{inflight} jobs in flight with concurrency={self.concurrency}")

    def check_quiescent(self) -> None:
        """Called when the duet side has nothing ready: the collector is waiting for a
        completion.  If it has capacity and budget left and nothing queued, it must have
        asked for work since the last result and been told there is none."""
        if self.failure is not None:
            raise self.failure
        if self.errors_fired or getattr(self, "callback_error", None) is not None:
            return  # the run is unwinding; no claim about asking
        running = len(self.started) - len(self.delivered)
        queue_empty = len(self.issued) == len(self.started)
        budget_left = self.budget is None or self.started_reps < self.budget
        if running < self.concurrency and budget_left and queue_empty and running > 0:
            last = self.clog[-1] if self.clog else None
            if not (last is not None and last[0] == "ask" and last[1] == 0):
                raise Violation(f"{P}-STOPPED-ASKING",
                                f"collector waits with capacity ({running}/{self.concurrency}) and budget "
                                f"left but its last interaction was {last}, not an empty next_job()")
        if running < self.concurrency and budget_left and not queue_empty:
            raise Violation(f"{P}-STOPPED-ASKING",
                            f"collector waits with capacity ({running}/{self.concurrency}) and budget left "
                            f"while {len(self.issued) - len(self.started)} issued job(s) were never started")


def _payload(jid: int, reps: int) -> np.ndarray:
    bits = [(jid >> k) & 1 for k in range(10)]
    return np.array([bits] * reps, dtype=np.int8).reshape(reps, 10)


class ScriptedCollector(cirq.Collector):
    def __init__(self, world: _World, tape, total_jobs: int, callback_error_at):
        self.w = world
        self.tape = tape
        self.remaining = total_jobs
        self.next_id = 0
        self.asks = 0
        self.callback_error_at = callback_error_at
        self.q = cirq.LineQubit(0)

    def _new_job(self):
        jid = self.next_id
        self.next_id += 1
        self.remaining -= 1
        reps = 1 + self.tape.draw(4, "reps")
        self.w.reps[jid] = reps
        circuit = cirq.Circuit(cirq.measure(self.q, key=f"j{jid}"))
        self.w.issued.append(jid)
        return cirq.CircuitSampleJob(circuit, repetitions=reps, tag=("job", jid))

    def next_job(self):
        w = self.w
        self.asks += 1
        if self.asks > 60 * (self.next_id + self.remaining + 2):
            raise Violation(f"{P}-HANG", f"next_job called {self.asks} times: the collector is spinning")
        if w.returned:
            w.fail(f"{P}-UNCLEAN-STOP", "next_job called after collect() returned")
        inflight = len(w.started) - len(w.delivered)
        if self.remaining == 0:
            shape = 0
        elif inflight > 0:
            # may decline for now although work is left (documented: asked again after a completion)
            shape = self.tape.weighted([2, 5, 2, 1], "next_job-shape")
        else:
            shape = 1 + self.tape.weighted([5, 2, 1], "next_job-shape")
        if shape == 0:
            w.clog.append(("ask", 0))
            if self.remaining and inflight:
                w.ctx.probe("w1:declined-with-work-left")
            w.ctx.event("next_job", [])
            return None
        if shape == 1:
            tree = self._new_job()
            n = 1
        elif shape == 2:
            k = min(self.remaining, 1 + self.tape.draw(3, "list-len"))
            tree = [self._new_job() for _ in range(k)]
            n = k
        else:
            k = min(self.remaining, 2 + self.tape.draw(2, "tree-len"))
            jobs = [self._new_job() for _ in range(k)]
            tree = [jobs[0], [[j] for j in jobs[1:]], []]
            n = k
            w.ctx.probe("w1:nested-tree")
        w.clog.append(("ask", n))
        w.ctx.event("next_job", n)
        return tree

    def on_job_result(self, job, result):
        w = self.w
        jid = job.tag[1]
        w.ctx.event("on_job_result", jid)
        if w.returned:
            w.fail(f"{P}-UNCLEAN-STOP", f"on_job_result({jid}) after collect() returned")
        if jid in w.delivered:
            w.fail(f"{P}-DUP-RESULT", f"job {jid} delivered twice")
        if jid not in w.completed:
            w.fail(f"{P}-WRONG-RESULT", f"job {jid} delivered before it completed")
        key = f"j{jid}"
        ok = (set(result.measurements) == {key}
              and result.measurements[key].shape == (w.reps[jid], 10)
              and np.array_equal(result.measurements[key], _payload(jid, w.reps[jid])))
        if not ok:
            w.fail(f"{P}-WRONG-RESULT", f"job {jid} received a result that is not its own: "
                                        f"{ {k: v.tolist() for k, v in result.measurements.items()} }")
        w.delivered.append(jid)
        w.clog.append(("result", jid))
        if self.callback_error_at is not None and len(w.delivered) == self.callback_error_at + 1:
            w.ctx.fault("callback-error")
            w.callback_error = InjectedCallbackError(f"on_job_result #{self.callback_error_at}")
            raise w.callback_error


def _job_id(program) -> int:
    keys = sorted(cirq.measurement_key_names(program))
    assert len(keys) == 1 and keys[0].startswith("j"), keys
    return int(keys[0][1:])


def _result_for(jid: int, reps: int):
    return cirq.ResultDict(params=cirq.ParamResolver({}), measurements={f"j{jid}": _payload(jid, reps)})


def make_sampler(world: _World, flavour: int, tape, error_jobs):
    w = world

    def begin(program, repetitions):
        jid = _job_id(program)
        if repetitions != w.reps[jid]:
            w.fail(f"{P}-WRONG-RESULT", f"job {jid} run with repetitions={repetitions}, asked {w.reps[jid]}")
        w.ctx.event("start", jid)
        w.on_start(jid)
        return jid

    def outcome(jid):
        return InjectedJobError(f"job {jid}") if jid in error_jobs else None

    class AsyncFutureSampler(cirq.Sampler):
        """run_sweep_async awaits a future the simulator completes."""

        async def run_sweep_async(self, program, params, repetitions=1):
            jid = begin(program, repetitions)
            if flavour == 3 and w.sim.tape.chance(1, 2, "sleep?"):
                await duet.sleep(1 + w.sim.tape.draw(5, "sleep"))
                w.ctx.probe("w1:slept")
            fut = duet.AwaitableFuture()
            w.pending[jid] = (fut, outcome(jid))
            await fut
            return [_result_for(jid, repetitions)]

    class ImmediateAsyncSampler(cirq.Sampler):
        """run_sweep_async completes without ever yielding."""

        async def run_sweep_async(self, program, params, repetitions=1):
            jid = begin(program, repetitions)
            w.completed.add(jid)
            o = outcome(jid)
            if o is not None:
                w.errors_fired.append(o)
                w.ctx.fault("job-error")
                raise o
            return [_result_for(jid, repetitions)]

    class SyncOnlySampler(cirq.Sampler):
        """Only run_sweep is defined; cirq's shim provides run_sweep_async."""

        def run_sweep(self, program, params, repetitions=1):
            jid = begin(program, repetitions)
            w.completed.add(jid)
            o = outcome(jid)
            if o is not None:
                w.errors_fired.append(o)
                w.ctx.fault("job-error")
                raise o
            return [_result_for(jid, repetitions)]

    return [AsyncFutureSampler, ImmediateAsyncSampler, SyncOnlySampler, AsyncFutureSampler][flavour]()


def run(tape, ctx: Ctx) -> None:
    ctx.workload = "W1-collector"
    total = tape.draw(8, "total-jobs")
    concurrency = 1 + tape.draw(5, "concurrency")
    flavour = tape.weighted([5, 1, 1, 3], "sampler-flavour")
    budget_kind = tape.weighted([4, 2, 1, 1], "budget-kind")
    fault_kind = tape.weighted([5, 2, 1, 1], "fault-kind")  # none / one job error / two / callback error
    error_jobs = set()
    callback_error_at = None
    if total:
        if fault_kind in (1, 2):
            error_jobs.add(tape.draw(total, "error-job"))
            if fault_kind == 2:
                error_jobs.add(tape.draw(total, "error-job-2"))
            ctx.fault_configured("job-error")
        elif fault_kind == 3:
            callback_error_at = tape.draw(total, "callback-error-at")
            ctx.fault_configured("callback-error")
    # the budget is in repetitions; reps are 1..4 per job
    budget = {0: None, 1: 1 + tape.draw(8, "budget"), 2: "exact", 3: 0}[budget_kind]

    sim = Sim(tape, ctx, max_steps=40 * total + 200)
    world = _World(sim, ctx, concurrency, None)
    world.callback_error = None
    collector = ScriptedCollector(world, tape, total, callback_error_at)
    if budget == "exact":
        # pre-draw nothing: "exactly the total" is approximated by the expected total 2.5/job,
        # rounded -- what matters is that the budget can be hit exactly or overshot mid-run
        budget = max(1, (5 * total) // 2)
    world.budget = budget
    sampler = make_sampler(world, flavour, tape, error_jobs)
    sim.add_source(world)
    sim.on_quiescent = world.check_quiescent
    ctx.decide("cfg", total, concurrency, flavour, budget, sorted(error_jobs), callback_error_at)

    raised = None
    with simduet.installed(sim):
        try:
            collector.collect(sampler, concurrency=concurrency, max_total_samples=budget)
        except Violation:
            raise
        except SimHang as e:
            raise Violation(f"{P}-HANG", f"collect() never returns: {e}; started={world.started} "
                                         f"completed={sorted(world.completed)} delivered={world.delivered}")
        except StepCapExceeded as e:
            raise Violation(f"{P}-HANG", f"collect() did not finish within {sim.max_steps} simulator events "
                                         f"({e}); started={world.started} delivered={world.delivered}")
        except (InjectedJobError, InjectedCallbackError) as e:
            raised = e
    world.returned = True
    if world.failure is not None:
        raise world.failure
    if sim.schedulers and any(s.active_tasks for s in sim.schedulers):
        raise Violation(f"{P}-UNCLEAN-STOP", "tasks survive in the scheduler after collect() returned")

    w = world
    if raised is not None:
        if isinstance(raised, InjectedCallbackError):
            if raised is not w.callback_error:
                raise Violation(f"{P}-ERROR-SWALLOWED", "a different callback error surfaced")
        elif not any(raised is e for e in w.errors_fired):
            raise Violation(f"{P}-ERROR-SWALLOWED", f"collect() raised {raised!r}, which is not an error "
                                                    f"that had been delivered: {w.errors_fired}")
        if len(set(w.delivered)) != len(w.delivered):
            raise Violation(f"{P}-DUP-RESULT", f"delivered {w.delivered}")
    else:
        if w.errors_fired:
            raise Violation(f"{P}-ERROR-SWALLOWED",
                            f"job error(s) {w.errors_fired} were delivered to the collector but collect() "
                            f"returned normally")
        if w.callback_error is not None:
            raise Violation(f"{P}-ERROR-SWALLOWED", "on_job_result raised but collect() returned normally")
        if w.pending:
            raise Violation(f"{P}-UNCLEAN-STOP", f"collect() returned with jobs {sorted(w.pending)} in flight")
        lost = [j for j in w.started if j not in w.delivered]
        if lost:
            raise Violation(f"{P}-LOST-RESULT", f"jobs {lost} completed but were never passed to on_job_result")
        if sorted(w.delivered) != sorted(w.started):
            raise Violation(f"{P}-DUP-RESULT", f"started {w.started}, delivered {w.delivered}")
        budget_left = w.budget is None or w.started_reps < w.budget
        if budget_left:
            unstarted = len(w.issued) - len(w.started)
            if unstarted:
                raise Violation(f"{P}-STOPPED-ASKING", f"collect() returned with budget left and {unstarted} "
                                                       f"issued job(s) never started")
            asks = [e for e in w.clog]
            if not asks or asks[-1] != ("ask", 0):
                raise Violation(f"{P}-STOPPED-ASKING",
                                f"collect() returned with budget left although its last interaction with the "
                                f"collector was {asks[-1] if asks else None}, not an empty next_job()")
        else:
            ctx.probe("w1:budget-exhausted")
    # after return: nothing else may happen
    if w.pending and raised is None:
        raise Violation(f"{P}-UNCLEAN-STOP", "in-flight jobs after a normal return")
    ctx.nontrivial = len(w.started) >= 2
    if len(w.started) >= 2 and w.delivered and w.delivered != sorted(w.delivered):
        ctx.probe("w1:out-of-order-completion")
    if raised is not None and len(w.started) > len(w.completed):
        ctx.probe("w1:error-with-jobs-in-flight")
    ctx.sample = {"workload": "W1", "jobs": total, "concurrency": concurrency, "flavour": flavour,
                  "budget": w.budget, "error_jobs": sorted(error_jobs), "callback_error_at": callback_error_at,
                  "started": w.started, "delivered": w.delivered,
                  "raised": type(raised).__name__ if raised else None,
                  "decisions": [d[0] if len(d) == 1 else list(d) for d in ctx.decisions[:40]]}


# ---------------------------------------------------------------------------------------------------------
# W1b: the real PauliSumCollector over a sampler whose jobs complete when the simulator says so
# ---------------------------------------------------------------------------------------------------------

def run_pauli(tape, ctx: Ctx) -> None:
    ctx.workload = "W1-pauli-sum-collector"
    q0, q1 = cirq.LineQubit.range(2)
    circuit = cirq.Circuit(cirq.H(q0), cirq.CNOT(q0, q1))
    pool = [cirq.Z(q0) * cirq.Z(q1), cirq.X(q0) * cirq.X(q1), cirq.Z(q0), cirq.Y(q0) * cirq.Y(q1), cirq.X(q1)]
    n_terms = 1 + tape.draw(3, "n-terms")
    coefs = [[0.5, 1.5, -1.0, 2.0, -0.25][tape.draw(5, "coef")] for _ in range(n_terms)]
    terms = [pool[(tape.draw(len(pool), "term") + i) % len(pool)] for i in range(n_terms)]
    # distinct terms only (equal Pauli strings would be merged by PauliSum)
    seen, uniq_terms, uniq_coefs = set(), [], []
    for t, c in zip(terms, coefs):
        if t not in seen:
            seen.add(t)
            uniq_terms.append(t)
            uniq_coefs.append(c)
    terms, coefs = uniq_terms, uniq_coefs
    offset = [0, 2.0, -1.5][tape.draw(3, "identity-offset")]
    observable = sum(c * t for c, t in zip(coefs, terms)) + offset
    samples_per_term = 1 + tape.draw(7, "samples-per-term")
    max_per_job = 1 + tape.draw(4, "max-samples-per-job")
    concurrency = 1 + tape.draw(4, "concurrency")
    ctx.decide("cfg", "pauli", [str(t) for t in terms], coefs, offset, samples_per_term, max_per_job, concurrency)

    sim = Sim(tape, ctx, max_steps=40 * len(terms) * samples_per_term + 200)
    state = {"pending": {}, "started": [], "inflight": 0, "failure": None, "requested": 0, "completions": []}
    psum = cirq.PauliSum.wrap(observable)
    # the order in which PauliSumCollector walks the terms
    ordered = [(p / p.coefficient, p.coefficient) for p in psum if p]
    per_term_bits = {i: [] for i in range(len(ordered))}

    class Source:
        def enabled(self):
            return [(f"complete:{j}", (lambda jj=j: self.complete(jj))) for j in state["pending"]]

        def complete(self, j):
            fut = state["pending"].pop(j)
            state["completions"].append(j)
            fut.try_set_result(None)

    class FakeSampler(cirq.Sampler):
        async def run_sweep_async(self, program, params, repetitions=1):
            j = len(state["started"])
            term_index = state["requested"] // samples_per_term
            state["requested"] += repetitions
            state["started"].append((j, term_index, repetitions))
            state["inflight"] += 1
            if state["inflight"] > concurrency and state["failure"] is None:
                state["failure"] = Violation(f"{P}-CONCURRENCY", f"{state['inflight']} jobs in flight with "
                                                                 f"concurrency={concurrency} (PauliSumCollector)")
            if repetitions > max_per_job and state["failure"] is None:
                state["failure"] = Violation(f"{P}-BUDGET", f"a job asks for {repetitions} samples with "
                                                            f"max_samples_per_job={max_per_job}")
            nq = len(cirq.measurement_key_objs(program)) and sum(
                len(op.qubits) for op in program.all_operations() if cirq.is_measurement(op))
            bits = np.array([[tape.draw(2, "bit") for _ in range(nq)] for _ in range(repetitions)], dtype=np.int8)
            if term_index < len(ordered):
                per_term_bits[term_index].append(bits)
            fut = duet.AwaitableFuture()
            state["pending"][j] = fut
            try:
                await fut
            finally:
                state["inflight"] -= 1
            return [cirq.ResultDict(params=cirq.ParamResolver({}), measurements={"out": bits})]

    sim.add_source(Source())

    def on_quiescent():
        if state["failure"] is not None:
            raise state["failure"]

    sim.on_quiescent = on_quiescent
    collector = cirq.PauliSumCollector(circuit, observable, samples_per_term=samples_per_term,
                                       max_samples_per_job=max_per_job)
    with simduet.installed(sim):
        try:
            collector.collect(FakeSampler(), concurrency=concurrency)
        except Violation:
            raise
        except SimHang as e:
            raise Violation(f"{P}-HANG", f"PauliSumCollector.collect never returns: {e}")
        except StepCapExceeded as e:
            raise Violation(f"{P}-HANG", f"PauliSumCollector.collect did not finish ({e})")
    if state["failure"] is not None:
        raise state["failure"]
    if state["pending"]:
        raise Violation(f"{P}-UNCLEAN-STOP", "collect() returned with jobs in flight")
    # every term sampled exactly samples_per_term times
    totals = {}
    for _j, ti, reps in state["started"]:
        totals[ti] = totals.get(ti, 0) + reps
    for i in range(len(ordered)):
        if totals.get(i, 0) != samples_per_term:
            raise Violation(f"{P}-LOST-RESULT", f"Pauli term {ordered[i][0]} was sampled {totals.get(i, 0)} times, "
                                                f"not samples_per_term={samples_per_term} (jobs {state['started']})")
    if any(ti >= len(ordered) for _j, ti, _r in state["started"]):
        raise Violation(f"{P}-BUDGET", f"more samples requested than terms x samples_per_term: {state['started']}")
    # the estimate equals the energy recomputed from the multiset of delivered results, whatever the order
    energy = 0j
    for i, (_p, coef) in enumerate(ordered):
        allbits = np.concatenate(per_term_bits[i], axis=0)
        par = allbits.sum(axis=1) % 2
        a = int((par == 0).sum())
        b = int((par == 1).sum())
        energy += coef * (a - b) / (a + b)
    energy += sum(p.coefficient for p in psum if not p)
    got = collector.estimated_energy()
    if abs(complex(got) - complex(energy)) > 1e-9:
        raise Violation(f"{P}-WRONG-RESULT", f"estimated_energy()={got} but the delivered results give {energy} "
                                             f"(completion order {state['completions']}, jobs {state['started']})")
    if state["completions"] != sorted(state["completions"]):
        ctx.probe("w1:pauli-out-of-order-completion")
    ctx.probe("w1:pauli-sum-collector")
    ctx.state(("w1p", len(ordered), min(samples_per_term, 4), min(max_per_job, 3), concurrency))
    ctx.nontrivial = len(state["started"]) >= 2
    ctx.sample = {"workload": "W1-PauliSumCollector", "terms": [str(t) for t in terms], "samples_per_term": samples_per_term,
                  "max_samples_per_job": max_per_job, "concurrency": concurrency, "jobs": state["started"],
                  "completion_order": state["completions"], "energy": str(got)}
