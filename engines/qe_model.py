"""E3 -- a small executable model of Quantum Engine, the peer of StreamManager.

The client object offers what StreamManager uses of QuantumEngineServiceAsyncClient:
`await quantum_run_stream(request_iterator, timeout=None)` -> async iterable of
responses, and `await cancel_quantum_job(request)`.  Everything the server does
"by itself" is a separate simulator event: process one request it has read
(possibly after the stream that carried it died), finish a job, deliver one
queued reply (any order across message ids), break a stream, close a
half-closed stream.

Request semantics (from the client's own retry table in stream_manager.py, the
StreamError.Code enum and the race described in stream_manager_test.py):

  create_quantum_program_and_job   program exists -> PROGRAM_ALREADY_EXISTS (or, when the job exists too,
                                   JOB_ALREADY_EXISTS: tape's choice)
                                   else create both, reply when the job finishes
  create_quantum_job               program missing -> PROGRAM_DOES_NOT_EXIST
                                   job exists -> JOB_ALREADY_EXISTS; else create, reply when finished
  get_quantum_result               job missing -> JOB_DOES_NOT_EXIST; else reply when finished
  a finished job replies `result` (SUCCESS) or `job` (FAILURE)

Transport variants (how the request reader of a stream behaves once the
stream has died), chosen per run:

  T2 "grpc"  what grpc.aio._call._consume_request_iterator of the pinned grpcio does: the reader
             task of a finished call stays blocked on the request iterator; handed a request it
             finds the call finished (`_write` raises InvalidStateError), drops that request and
             exits without consuming anything further; handed the end-of-iterator (the `None`
             sentinel) it exits cleanly.  A live stream whose reader met the sentinel is
             half-closed; the server ends it normally once every request read on it is answered.
  T1 "fake"  what the repository's own FakeQuantumRunStream does: the reader of a dead stream keeps
             consuming (and recording) requests until it meets the sentinel; a reader that meets
             the sentinel ends its stream normally at once.
"""
from __future__ import annotations

import asyncio
from typing import Dict, List, Optional

import google.api_core.exceptions as gexc

from cirq_google.cloud import quantum

Code = quantum.StreamError.Code
_STOP = object()

RETRYABLE_BREAKS = [gexc.InternalServerError, gexc.ServiceUnavailable, gexc.Unknown]
NONRETRYABLE_BREAKS = [gexc.DeadlineExceeded, gexc.InvalidArgument, gexc.Unauthenticated,
                       gexc.PermissionDenied, gexc.NotFound, gexc.ResourceExhausted, gexc.Aborted]
NONRETRYABLE_CODES = [Code.INTERNAL, Code.INVALID_ARGUMENT, Code.PERMISSION_DENIED,
                      Code.PROCESSOR_DOES_NOT_EXIST, Code.INVALID_PROCESSOR_FOR_JOB]


class ForeignError(Exception):
    """A non-Google exception breaking the stream."""


class Stream:
    def __init__(self, epoch: int, q: asyncio.Queue):
        self.epoch = epoch
        self.q = q                      # items for the response iterator (responses, exceptions, _STOP)
        self.alive = True
        self.half_closed = False
        self.ended = False
        self.unprocessed: List = []     # requests read, not yet processed
        self.outbox: List = []          # replies produced, not yet delivered
        self.read_ids: List[str] = []
        self.unanswered = set()         # message ids read on this stream with no reply delivered yet
        self.reader_task = None
        self.break_exc = None


class Job:
    def __init__(self, name: str, fails: bool):
        self.name = name
        self.state = "RUNNING"
        self.fails = fails
        self.executions = 1
        self.waiters: List = []         # (stream, message_id)
        self.terminal_at = None         # simulated time at which the job reached a terminal state
        self.ready_at = 0.0             # earliest simulated time at which the job can finish ("job-slow")
        self.cancel_at = 0.0            # earliest simulated time at which CANCELLING becomes CANCELLED
        self.created_step = -1          # simulator event number at which the server created the job


class ModelQuantumEngine:
    """Server state + the client object handed to StreamManager (`.client`)."""

    def __init__(self, sim, ctx, transport: str, fault_budget: int, enabled_faults: Dict[str, int],
                 failing_jobs=(), preexisting_programs=()):
        self.sim = sim
        self.ctx = ctx
        self.transport = transport
        self.fault_budget = fault_budget
        self.enabled_faults = enabled_faults    # kind -> weight (0 = disabled this run)
        self.programs = set(preexisting_programs)
        self.jobs: Dict[str, Job] = {}
        self.failing_jobs = set(failing_jobs)
        self.streams: List[Stream] = []
        self.open_failures = 0
        self.created_by_unary = set()           # jobs created through the unary create_quantum_job RPC
        self.unary_fault_spread = False          # at most one injected failure in a row per (rpc, target)
        self._last_unary_failed: Dict = {}
        self.processed_then_failed: List = []    # unary RPCs whose effect took place but whose reply was a 5xx
        self.orphaned_request_iterators = 0
        self.clean_closes: List = []            # (epoch, message ids in flight) of streams the server closed with OK
        self.cancel_requests: List[str] = []
        self.cancel_steps: Dict[str, List[int]] = {}    # job name -> event numbers at which a cancel RPC arrived
        self.all_message_ids: List[str] = []
        self.requests_log: List = []            # (epoch, message_id, kind, job_name, on_dead_stream)
        self.final_delivered: Dict[str, List] = {}   # job name -> [(message_id, kind)] delivered into q
        self.error_delivered: Dict[str, List] = {}   # message id -> (code, retryable?) delivered into q
        self.breaks: List = []                  # (epoch, exception, unanswered message ids at break)
        self.msg_job: Dict[str, str] = {}       # message id -> job name
        self.msg_kind: Dict[str, str] = {}
        self.read_step: Dict[str, int] = {}     # message id -> simulator step at which the server read it
        self.lost_requests: List[str] = []      # T2: message ids dropped by a dead reader
        self.injected_unary: List = []
        self.connect_stalls = False             # set by the workload (per run)
        self.external_cancel = set()            # job names a third party cancels while they run
        self.outage_until = None                # unary RPCs fail with 503 until this simulated time
        self.outage_failures = 0
        self.job_duration = None                # job name -> simulated seconds a job stays RUNNING at least
        self.cancel_latency = 0.0               # simulated seconds a job stays CANCELLING at least
        self.connecting: List = []
        self.client = _Client(self)
        self.problems: List[str] = []
        self.is_subscribed = lambda mid: True   # set by the workload: peeks at the client's demux
        self.result_factory = None              # L2: job name -> any_pb2.Any payload of QuantumResult.result
        self.unary_pending: List = []           # [id, rpc name, request, asyncio future]
        self.unary_log: List = []               # (rpc name, target name, outcome)
        self._unary_seq = 0
        self.unary_times: Dict[int, list] = {}  # uid -> [rpc, target, t_issued, t_completed, outcome]
        self.unary_fault_budget = 3 if (enabled_faults.get("unary-5xx") or enabled_faults.get("unary-4xx")) else 0

    # ------------------------------------------------------------------------------------------------
    # transport: called from asyncio code running inside SimLoop
    # ------------------------------------------------------------------------------------------------
    def open_stream(self, requests) -> Stream:
        st = Stream(len(self.streams), asyncio.Queue())
        self.streams.append(st)
        self.ctx.event("stream-open", st.epoch)
        st.requests = requests
        return st

    async def _read_requests(self, st: Stream) -> None:
        try:
            async for request in st.requests:
                if not st.alive and self.transport == "T2":
                    # grpc: _write() on a finished call raises; the request is dropped, the poller exits
                    self._note_request(st, request, lost=True)
                    self.ctx.probe("w3:T2-reader-death")
                    return
                self._note_request(st, request, lost=False)
                st.unprocessed.append(request)
            # end of iterator: the sentinel was consumed by this reader
            if st.alive:
                if self.transport == "T2":
                    st.half_closed = True
                    self.ctx.probe("w3:half-closed-live-stream")
                    self.ctx.event("half-close", st.epoch)
                else:
                    self._end_stream(st)
        except asyncio.CancelledError:
            raise

    def _note_request(self, st: Stream, request, lost: bool) -> None:
        mid = request.message_id
        kind = request._pb.WhichOneof("request")
        if kind == "create_quantum_program_and_job":
            job_name = request.create_quantum_program_and_job.quantum_job.name
        elif kind == "create_quantum_job":
            job_name = request.create_quantum_job.quantum_job.name
        elif kind == "get_quantum_result":
            job_name = request.get_quantum_result.parent
        else:
            job_name = "?"
            self.problems.append(f"request {mid} has no recognised body: {kind}")
        self.all_message_ids.append(mid)
        self.read_step.setdefault(mid, self.sim.steps)
        self.msg_job[mid] = job_name
        self.msg_kind[mid] = kind
        self.requests_log.append((st.epoch, mid, kind, job_name, not st.alive, lost))
        self.ctx.event("read", st.epoch, mid, kind, job_name.rsplit("/", 1)[-1], "dead" if not st.alive else "live",
                       "LOST" if lost else "")
        if lost:
            self.lost_requests.append(mid)
            return
        st.read_ids.append(mid)
        if st.alive:
            st.unanswered.add(mid)

    def _close_ok(self, st: Stream) -> None:
        """The server ends a live stream normally (status OK: connection draining, maximum stream age) although
        requests read on it are unanswered: they never will be, on this stream."""
        self.fault_budget -= 1
        self.ctx.fault("close-ok")
        waiting = sorted((m for m in st.unanswered if self.is_subscribed(m)), key=int)
        self.clean_closes.append((st.epoch, waiting))
        if not st.half_closed:
            # the client's request iterator for this stream is still running and nothing will stop it
            self.orphaned_request_iterators += 1
        if waiting:
            self.ctx.probe("w3:clean-close-with-request-in-flight")
        self.ctx.event("close-ok", st.epoch, sorted(st.unanswered, key=int))
        st.outbox.clear()
        st.unanswered = set()
        for job in self.jobs.values():
            job.waiters = [(s, m) for (s, m) in job.waiters if s is not st]
        self._end_stream(st)

    def _end_stream(self, st: Stream) -> None:
        """Normal end of a stream (response iterator finishes without error)."""
        if st.ended:
            return
        st.ended = True
        st.alive = False
        st.q.put_nowait(_STOP)
        self.ctx.event("stream-end", st.epoch)

    # ------------------------------------------------------------------------------------------------
    # server events
    # ------------------------------------------------------------------------------------------------
    def enabled(self):
        evs = []
        for st in self.streams:
            for i, req in enumerate(st.unprocessed):
                evs.append((f"process:{st.epoch}:{req.message_id}", (lambda s=st, r=req: self._process(s, r))))
                break  # a stream's requests are processed in the order they were read
        for name, job in self.jobs.items():
            if job.state == "RUNNING" and self.sim.now >= job.ready_at:
                evs.append((f"finish:{name.rsplit('/', 1)[-1]}", (lambda j=job: self._finish(j))))
            elif job.state == "CANCELLING" and self.sim.now >= job.cancel_at:
                evs.append((f"cancelled:{name.rsplit('/', 1)[-1]}", (lambda j=job: self._cancelled(j))))
            if job.state == "RUNNING" and name in self.external_cancel:
                evs.append((f"ext-cancel:{name.rsplit('/', 1)[-1]}", (lambda n=name: self._external_cancel(n))))
        for st in self.streams:
            if st.alive:
                for i, resp in enumerate(st.outbox):
                    evs.append((f"deliver:{st.epoch}:{resp.message_id}",
                                (lambda s=st, r=resp: self._deliver(s, r))))
                if st.half_closed and not st.unanswered and not st.unprocessed:
                    evs.append((f"close:{st.epoch}", (lambda s=st: self._end_stream(s))))
        evs.extend(self._unary_events())
        for i, fut in enumerate(self.connecting):
            if not fut.done():
                evs.append((f"connect:{i}", (lambda f=fut: (not f.done()) and f.set_result(None))))
        self.connecting = [f for f in self.connecting if not f.done()]
        if self.fault_budget > 0 and not self.sim.fair:
            for st in self.streams:
                if st.alive and not st.ended:
                    for kind in ("break-retryable", "break-nonretryable", "break-foreign"):
                        if self.enabled_faults.get(kind):
                            evs.append((f"{kind}:{st.epoch}", (lambda s=st, k=kind: self._break(s, k))))
                    if self.enabled_faults.get("close-ok"):
                        evs.append((f"close-ok:{st.epoch}", (lambda s=st: self._close_ok(s))))
        return evs

    def _reply(self, st: Stream, mid: str, **body) -> None:
        resp = quantum.QuantumRunStreamResponse(message_id=mid, **body)
        if st.alive:
            st.outbox.append(resp)
        else:
            self.ctx.probe("w3:reply-for-dead-stream-dropped")

    def _error(self, st: Stream, mid: str, code) -> None:
        self._reply(st, mid, error=quantum.StreamError(code=code, message=f"{Code(code).name} ({mid})"))

    def _process(self, st: Stream, req) -> None:
        st.unprocessed.remove(req)
        mid = req.message_id
        kind = self.msg_kind[mid]
        if not st.alive:
            self.ctx.fault("late-processing")
        # injected server-side error code
        if (self.fault_budget > 0 and not self.sim.fair and self.enabled_faults.get("server-error-code")
                and st.alive and self.sim.tape.chance(1, 6, "server-error?")):
            self.fault_budget -= 1
            code = NONRETRYABLE_CODES[self.sim.tape.draw(len(NONRETRYABLE_CODES), "error-code")]
            self.ctx.fault("server-error-code")
            self._error(st, mid, code)
            return
        if kind == "create_quantum_program_and_job":
            body = req.create_quantum_program_and_job
            pname, jname = body.quantum_program.name, body.quantum_job.name
            if pname in self.programs:
                # Both ids taken (the create was carried out before the stream broke and is sent again): the
                # service may name either conflict; the client documents a way on from both.  Drawn only in
                # this state, so runs that never reach it keep their tape.
                if jname in self.jobs and self.sim.tape.chance(1, 2, "job-conflict-named-first?"):
                    self.ctx.probe("w3:JOB_ALREADY_EXISTS-on-create-both")
                    return self._error(st, mid, Code.JOB_ALREADY_EXISTS)
                self.ctx.probe("w3:PROGRAM_ALREADY_EXISTS")
                return self._error(st, mid, Code.PROGRAM_ALREADY_EXISTS)
            self.programs.add(pname)
            self._create_job(st, mid, jname)
        elif kind == "create_quantum_job":
            body = req.create_quantum_job
            pname, jname = body.parent, body.quantum_job.name
            if pname not in self.programs:
                self.ctx.probe("w3:PROGRAM_DOES_NOT_EXIST")
                return self._error(st, mid, Code.PROGRAM_DOES_NOT_EXIST)
            if jname in self.jobs:
                self.ctx.probe("w3:JOB_ALREADY_EXISTS")
                return self._error(st, mid, Code.JOB_ALREADY_EXISTS)
            self._create_job(st, mid, jname)
        elif kind == "get_quantum_result":
            jname = req.get_quantum_result.parent
            job = self.jobs.get(jname)
            if job is None:
                self.ctx.probe("w3:JOB_DOES_NOT_EXIST")
                return self._error(st, mid, Code.JOB_DOES_NOT_EXIST)
            if job.state in ("RUNNING", "CANCELLING"):
                job.waiters.append((st, mid))
            else:
                self._reply_final(st, mid, job)
        else:
            self._error(st, mid, Code.INVALID_ARGUMENT)

    def _create_job(self, st: Stream, mid: str, jname: str) -> None:
        if jname in self.jobs:
            # create_quantum_program_and_job for an existing job under a new program name cannot
            # happen in this workload (job names embed the program name); kept as a model invariant
            self.jobs[jname].executions += 1
            self.problems.append(f"job {jname} created twice")
        job = self._new_job(jname)
        self.jobs[jname] = job
        job.waiters.append((st, mid))
        self.ctx.event("job-created", jname.rsplit("/", 1)[-1])

    def _finish(self, job: Job) -> None:
        job.state = "FAILED" if job.fails else "DONE"
        job.terminal_at = self.sim.now
        if job.fails:
            self.ctx.fault("job-fails")
        for st, mid in job.waiters:
            self._reply_final(st, mid, job)
        job.waiters = []

    def _cancelled(self, job: Job) -> None:
        """A cancel request took effect: CANCELLING -> CANCELLED (terminal)."""
        job.state = "CANCELLED"
        job.terminal_at = self.sim.now
        for st, mid in job.waiters:
            self._reply_final(st, mid, job)
        job.waiters = []

    # timer-source protocol: slow jobs become able to finish when simulated time has passed
    def next_timer(self):
        ts = [j.ready_at for j in self.jobs.values() if j.state == "RUNNING" and j.ready_at > self.sim.now]
        ts += [j.cancel_at for j in self.jobs.values() if j.state == "CANCELLING" and j.cancel_at > self.sim.now]
        if self.outage_until is not None and self.outage_until > self.sim.now:
            ts.append(self.outage_until)
        return min(ts) if ts else None

    def _new_job(self, jname: str) -> "Job":
        job = Job(jname, jname in self.failing_jobs)
        job.created_step = self.sim.steps
        d = self.job_duration(jname) if self.job_duration is not None else 0.0
        job.ready_at = self.sim.now + d
        if d > 0:
            self.ctx.fault("job-slow")
        return job

    def _external_cancel(self, name: str) -> None:
        self.external_cancel.discard(name)
        self.ctx.fault("external-cancel")
        self.cancel_job(name)

    def cancel_job(self, name: str) -> None:
        self.cancel_requests.append(name)
        self.cancel_steps.setdefault(name, []).append(self.sim.steps)
        self.ctx.event("cancel-rpc", name.rsplit("/", 1)[-1])
        job = self.jobs.get(name)
        if job is not None and job.state == "RUNNING":
            job.state = "CANCELLING"        # transient, observable by get_quantum_job
            job.cancel_at = self.sim.now + self.cancel_latency
            self.ctx.probe("w3:job-cancelling")

    def _reply_final(self, st: Stream, mid: str, job: Job) -> None:
        if job.state == "DONE":
            self._reply(st, mid, result=self.make_result(job.name))
        else:
            qj = quantum.QuantumJob(name=job.name)
            qj.execution_status.state = (quantum.ExecutionStatus.State.CANCELLED if job.state == "CANCELLED"
                                         else quantum.ExecutionStatus.State.FAILURE)
            self._reply(st, mid, job=qj)

    def make_result(self, job_name: str):
        if self.result_factory is None:
            return quantum.QuantumResult(parent=job_name)
        return quantum.QuantumResult(parent=job_name, result=self.result_factory(job_name))

    # -- unary RPCs (L2): each call completes when the simulator says so -----------------------------------
    def _unary_events(self):
        evs = []
        for item in self.unary_pending:
            uid, name, _req, _fut = item
            evs.append((f"unary:{name}:{uid}", (lambda it=item: self._unary_complete(it))))
        return evs

    def _unary_complete(self, item) -> None:
        uid, name, req, fut = item
        self.unary_pending.remove(item)
        if fut.done():
            return
        self.unary_times[uid][3] = self.sim.now
        if (self.unary_fault_budget > 0 and not self.sim.fair and (self.enabled_faults.get("unary-5xx") or
                                                                    self.enabled_faults.get("unary-4xx"))
                and self.sim.tape.chance(1, 3, "unary-fault?")
                and not (self.unary_fault_spread and self._last_unary_failed.get((name, _target(req))))):
            kinds = [k for k in ("unary-5xx", "unary-4xx") if self.enabled_faults.get(k)]
            kind = kinds[self.sim.tape.draw(len(kinds), "unary-fault-kind")]
            if self.unary_fault_spread:
                kind = "unary-5xx" if self.enabled_faults.get("unary-5xx") else kind
            self._last_unary_failed[(name, _target(req))] = True
            self.unary_fault_budget -= 1
            self.ctx.fault(kind)
            if kind == "unary-5xx":
                exc = [gexc.InternalServerError, gexc.ServiceUnavailable][self.sim.tape.draw(2, "5xx")](f"injected {name}")
                if self.enabled_faults.get("unary-5xx-after") and self.sim.tape.chance(1, 2, "after-processing?"):
                    # the server did the work and the *reply* was lost: for the caller the same 5xx
                    try:
                        getattr(self, "_rpc_" + name)(req)
                        self.ctx.fault("unary-5xx-after-processing")
                        self.unary_log.append((name, _target(req), type(exc).__name__, "injected-after-processing"))
                        self.processed_then_failed.append((name, _target(req)))
                        self.injected_unary.append(exc)
                        fut.set_exception(exc)
                        return
                    except gexc.GoogleAPICallError:
                        pass        # the server itself refuses: fall through to the plain injected failure
            else:
                exc = [gexc.PermissionDenied, gexc.InvalidArgument, gexc.ResourceExhausted][self.sim.tape.draw(3, "4xx")](f"injected {name}")
            self.unary_log.append((name, _target(req), type(exc).__name__, "injected"))
            self.injected_unary.append(exc)
            fut.set_exception(exc)
            return
        if self.outage_until is not None and self.sim.now < self.outage_until:
            # a service outage: every unary call made during the window fails with 503, however many
            exc = gexc.ServiceUnavailable(f"outage ({name})")
            self.ctx.fault("unary-outage")
            self.unary_log.append((name, _target(req), "ServiceUnavailable", "outage"))
            self.outage_failures += 1
            fut.set_exception(exc)
            return
        self._last_unary_failed[(name, _target(req))] = False
        try:
            res = getattr(self, "_rpc_" + name)(req)
        except gexc.GoogleAPICallError as e:
            self.unary_log.append((name, _target(req), type(e).__name__, "model"))
            fut.set_exception(e)
            return
        self.unary_log.append((name, _target(req), "ok", "model"))
        self.unary_times[uid][4] = "ok"
        fut.set_result(res)

    def _job_proto(self, job: Job):
        qj = quantum.QuantumJob(name=job.name)
        st = quantum.ExecutionStatus.State
        qj.execution_status.state = {"RUNNING": st.RUNNING, "DONE": st.SUCCESS, "FAILED": st.FAILURE,
                                     "CANCELLING": st.CANCELLING, "CANCELLED": st.CANCELLED}[job.state]
        return qj

    def _rpc_get_quantum_job(self, req):
        job = self.jobs.get(req.name)
        if job is None:
            raise gexc.NotFound(f"job {req.name} not found")
        return self._job_proto(job)

    def _rpc_get_quantum_result(self, req):
        job = self.jobs.get(req.parent)
        if job is None:
            raise gexc.NotFound(f"job {req.parent} not found")
        if job.state != "DONE":
            raise gexc.FailedPrecondition(f"job {req.parent} has no result (state {job.state})")
        return self.make_result(job.name)

    def _rpc_create_quantum_program(self, req):
        name = req.quantum_program.name
        if name in self.programs:
            raise gexc.Conflict(f"program {name} already exists")
        self.programs.add(name)
        return quantum.QuantumProgram(name=name)

    def _rpc_get_quantum_program(self, req):
        if req.name not in self.programs:
            raise gexc.NotFound(f"program {req.name} not found")
        return quantum.QuantumProgram(name=req.name)

    def _rpc_create_quantum_job(self, req):
        pname = req.parent
        jname = req.quantum_job.name
        if pname not in self.programs:
            raise gexc.NotFound(f"program {pname} not found")
        if jname in self.jobs:
            raise gexc.Conflict(f"job {jname} already exists")
        job = self._new_job(jname)
        self.jobs[jname] = job
        self.created_by_unary.add(jname)
        self.ctx.event("job-created", jname.rsplit("/", 1)[-1], "unary")
        return self._job_proto(job)

    def _deliver(self, st: Stream, resp) -> None:
        st.outbox.remove(resp)
        mid = resp.message_id
        st.unanswered.discard(mid)
        which = resp._pb.WhichOneof("response")
        self.ctx.event("deliver", st.epoch, mid, which)
        st.q.put_nowait(resp)

    def _note_received(self, resp) -> None:
        """The response iterator hands `resp` to StreamManager._manage_stream, which publishes it
        synchronously.  Only from here on does a reply count as having reached the client."""
        mid = resp.message_id
        which = resp._pb.WhichOneof("response")
        jname = self.msg_job.get(mid, "?")
        if not self.is_subscribed(mid):
            # the execution coroutine has moved on (an earlier break made it retry under a new
            # message id, or it was cancelled): this reply reaches nobody, by design of the client
            self.ctx.probe("w3:reply-for-stale-request")
            return
        if which in ("result", "job"):
            self.final_delivered.setdefault(jname, []).append((mid, which))
        else:
            self.error_delivered[mid] = resp.error.code

    def _break(self, st: Stream, kind: str) -> None:
        self.fault_budget -= 1
        tape = self.sim.tape
        if kind == "break-retryable":
            exc = RETRYABLE_BREAKS[tape.draw(len(RETRYABLE_BREAKS), "which-retryable")](f"injected break of stream {st.epoch}")
        elif kind == "break-nonretryable":
            exc = NONRETRYABLE_BREAKS[tape.draw(len(NONRETRYABLE_BREAKS), "which-nonretryable")](f"injected break of stream {st.epoch}")
        else:
            exc = ForeignError(f"injected foreign break of stream {st.epoch}")
        had_unprocessed = bool(st.unprocessed)
        had_processed_unanswered = bool(st.unanswered - {r.message_id for r in st.unprocessed})
        self.ctx.fault(kind)
        if kind == "break-retryable":
            self.ctx.fault("break-retryable-before" if had_unprocessed or not st.read_ids else "break-retryable-after")
        if len(st.unanswered) >= 2:
            self.ctx.probe("w3:break-with-two-in-flight")
        st.alive = False
        st.break_exc = exc
        # requests read on this stream, not yet answered, whose execution coroutine is waiting for
        # exactly that reply right now: these callers are demonstrably in flight on this stream
        waiting = sorted((m for m in st.unanswered if self.is_subscribed(m)), key=int)
        self.breaks.append((st.epoch, exc, kind, waiting))
        self.ctx.event("break", st.epoch, kind, type(exc).__name__, sorted(st.unanswered, key=int))
        st.outbox.clear()
        st.unanswered = set()
        # waiters on this stream will never be answered
        for job in self.jobs.values():
            job.waiters = [(s, m) for (s, m) in job.waiters if s is not st]
        st.q.put_nowait(exc)
        _ = had_processed_unanswered


def _target(req) -> str:
    for attr in ("name", "parent"):
        v = getattr(req, attr, "")
        if v:
            return v.rsplit("/", 1)[-1]
    return "?"


class _Client:
    def __init__(self, model: ModelQuantumEngine):
        self.m = model

    async def quantum_run_stream(self, requests, **kwargs):
        m = self.m
        if m.connect_stalls:
            # the call does not return until the transport is connected: a separate server event, so
            # requests can pile up unsent (and the user can act) while the stream is still connecting
            fut = asyncio.get_running_loop().create_future()
            m.connecting.append(fut)
            m.ctx.probe("w3:connect-stalled")
            await fut
        if (m.fault_budget > 0 and not m.sim.fair and m.enabled_faults.get("open-fail")
                and m.sim.tape.chance(1, 3, "open-fails?")):
            # the call cannot be established (server or network down): a retryable failure before any request
            # iterator was consumed
            m.fault_budget -= 1
            m.open_failures += 1
            m.ctx.fault("open-fail")
            m.ctx.event("open-fail", m.open_failures)
            await asyncio.sleep(0)
            raise RETRYABLE_BREAKS[m.sim.tape.draw(len(RETRYABLE_BREAKS), "which-retryable")](
                f"injected failure to open stream (#{m.open_failures})")
        st = m.open_stream(requests)

        async def response_iterator():
            st.reader_task = asyncio.get_running_loop().create_task(m._read_requests(st))
            try:
                while True:
                    item = await st.q.get()
                    if item is _STOP:
                        return
                    if isinstance(item, BaseException):
                        raise item
                    m._note_received(item)   # handed to the client's `async for` (published at once)
                    yield item
            finally:
                if st.alive:
                    # the consumer went away (cancelled): the call is cancelled
                    st.alive = False
                    st.outbox.clear()
                    st.unanswered = set()
                    m.ctx.event("stream-cancelled-by-client", st.epoch)
                    for job in m.jobs.values():
                        job.waiters = [(s, mm) for (s, mm) in job.waiters if s is not st]
                    if m.transport == "T2" and st.reader_task is not None:
                        st.reader_task.cancel()   # grpc: Call.cancel() cancels the request poller

        return response_iterator()

    async def _unary(self, name, request):
        m = self.m
        fut = asyncio.get_running_loop().create_future()
        m._unary_seq += 1
        m.unary_pending.append((m._unary_seq, name, request, fut))
        m.unary_times[m._unary_seq] = [name, _target(request), m.sim.now, None, None]   # issued, completed, outcome
        return await fut

    async def get_quantum_job(self, request, **kw):
        return await self._unary("get_quantum_job", request)

    async def get_quantum_result(self, request, **kw):
        return await self._unary("get_quantum_result", request)

    async def create_quantum_program(self, request, **kw):
        return await self._unary("create_quantum_program", request)

    async def get_quantum_program(self, request, **kw):
        return await self._unary("get_quantum_program", request)

    async def create_quantum_job(self, request, **kw):
        return await self._unary("create_quantum_job", request)

    async def cancel_quantum_job(self, request, **kw) -> None:
        self.m.cancel_job(request.name)
        await asyncio.sleep(0)
