"""E1 -- duet under a scheduler the simulator owns.

`duet.run` looks up `duet.impl.Scheduler` by name at call time; installing a
subclass there puts every `duet.run` / `duet.sync` wrapper inside Cirq under
the simulator without touching Cirq or duet.  Real duet code runs the tasks,
scopes, limiters and deadlines; what is simulated is (a) the clock duet reads
and (b) the wait for readiness: instead of blocking on a condition variable
until some other thread completes a future, the scheduler asks the simulator
to make one enabled event happen.
"""
from __future__ import annotations

import contextlib
from typing import Optional

import duet
import duet.impl as duet_impl

from engines.sim import Deadlock, Sim, SimHang
from simkit.core import StepCapExceeded

_RealScheduler = duet_impl.Scheduler
_current_sim: Optional[Sim] = None


class SimScheduler(_RealScheduler):
    def __init__(self) -> None:
        super().__init__()
        self.sim = _current_sim
        if self.sim is None:
            raise RuntimeError("SimScheduler created outside installed()")
        self.sim.add_timer_source(self)
        self.sim.schedulers.append(self)

    # the only clock duet reads
    def time(self) -> float:
        return self.sim.now

    # timer source protocol
    def next_timer(self) -> Optional[float]:
        return self.get_next_deadline()

    def tick(self):
        sim = self.sim
        rs = self._ready_tasks
        while True:
            if rs._tasks:
                sim.maybe_extra_events()
                break
            rs._buffer.flush()          # real duet semantics: flush buffered futures first
            if rs._tasks:
                break
            d = self.get_next_deadline()
            if d is not None and sim.now > d:
                break                   # super().tick() will interrupt the expired scopes
            if not self.active_tasks:
                break                   # let duet raise its own error
            if sim.aborted is not None:
                # We are in duet.run's clean-up loop (it swallows every exception and
                # ticks until no task is left) after the simulator gave up on this run:
                # tasks that still wait on something that will never happen are closed
                # here so that the loop -- and the run -- ends.
                self._kill_all()
                return
            if sim.on_quiescent is not None:
                sim.on_quiescent()
            try:
                sim.fire_one()
            except (Deadlock, StepCapExceeded) as e:
                sim.aborted = e
                if isinstance(e, Deadlock):
                    raise SimHang(sim.describe_hang(self)) from None
                raise
        super().tick()

    # duet.run calls these around the run; no signal handling in simulation, and the
    # end of the run is where this scheduler stops being a timer source
    def init_signals(self):
        pass

    def cleanup_signals(self):
        if self in self.sim.timer_sources:
            self.sim.timer_sources.remove(self)
        if self in self.sim.schedulers:
            self.sim.schedulers.remove(self)

    def _kill_all(self) -> None:
        for task in list(self.active_tasks):
            try:
                task._generator.close()
            except BaseException:  # noqa: BLE001
                pass
            task.scheduler = None
            task.main_task = None
            self.active_tasks.discard(task)


@contextlib.contextmanager
def installed(sim: Sim):
    """Within this block every duet.run uses SimScheduler bound to `sim`."""
    global _current_sim
    prev_sim, prev_cls = _current_sim, duet_impl.Scheduler
    _current_sim = sim
    if not hasattr(sim, "schedulers"):
        sim.schedulers = []
    duet_impl.Scheduler = SimScheduler
    try:
        yield sim
    finally:
        duet_impl.Scheduler = prev_cls
        _current_sim = prev_sim
