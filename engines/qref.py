"""E4, part 2 -- QRef: a small reference interpreter for circuits with measurements,
classical control and channels.

It computes, by explicit branching, the exact joint distribution of
(measurement records, post-run quantum state) that quantum mechanics assigns to
a circuit: a list of branches (records, probability, state).  It shares no code
with Cirq's simulators: operators are embedded into the full Hilbert space by
index arithmetic, measurement is projection with explicit projectors, the
classical register file and the evaluation of conditions are written here from
the documented semantics.

Trusted base (this is property C03's content, not checked here): the matrix of
an individual unitary operation (`cirq.unitary(op)`), the Kraus operators of an
individual channel (`cirq.kraus(op)`), and the attributes of measurement gates
(key, invert mask, confusion map, observable).

State: a density matrix over all qudits, in the big-endian order of the given
qubit order; `pure` branches additionally carry the state vector so that global
phase can be compared where it is defined.
"""
from __future__ import annotations

import math
from typing import Dict, List, Optional, Sequence, Tuple

import numpy as np
import sympy

import cirq

PRUNE = 1e-12


class Unsupported(Exception):
    """The reference does not model this operation (the generator must not emit it)."""


def _digits(dims: Sequence[int]) -> np.ndarray:
    n = len(dims)
    if n == 0:
        return np.zeros((1, 0), dtype=np.int64)
    return np.array(list(np.ndindex(*dims)), dtype=np.int64).reshape(-1, n)


def _ravel(dig: np.ndarray, dims: Sequence[int]) -> np.ndarray:
    out = np.zeros(dig.shape[0], dtype=np.int64)
    for k, d in enumerate(dims):
        out = out * d + dig[:, k]
    return out


class Space:
    def __init__(self, qubits: Sequence[cirq.Qid]):
        self.qubits = list(qubits)
        self.dims = [q.dimension for q in self.qubits]
        self.index = {q: i for i, q in enumerate(self.qubits)}
        self.D = int(np.prod(self.dims)) if self.dims else 1
        self.digits = _digits(self.dims)
        self._embed_cache: Dict = {}

    def embed(self, m: np.ndarray, targets: Sequence[int]) -> np.ndarray:
        """Full-space operator acting as `m` on `targets` (in that order) and identity elsewhere."""
        targets = list(targets)
        tdims = [self.dims[t] for t in targets]
        rest = [k for k in range(len(self.dims)) if k not in targets]
        rdims = [self.dims[k] for k in rest]
        tidx = _ravel(self.digits[:, targets], tdims) if targets else np.zeros(self.D, dtype=np.int64)
        ridx = _ravel(self.digits[:, rest], rdims) if rest else np.zeros(self.D, dtype=np.int64)
        m = np.asarray(m, dtype=np.complex128)
        if m.shape != (int(np.prod(tdims)) if tdims else 1,) * 2:
            raise Unsupported(f"operator shape {m.shape} does not fit targets of dims {tdims}")
        full = m[tidx[:, None], tidx[None, :]] * (ridx[:, None] == ridx[None, :])
        return full

    def projector_mask(self, targets: Sequence[int], outcome: Sequence[int]) -> np.ndarray:
        mask = np.ones(self.D, dtype=bool)
        for t, o in zip(targets, outcome):
            mask &= self.digits[:, t] == o
        return mask


class Branch:
    __slots__ = ("prob", "_rho", "psi", "records", "channel_records", "hidden")

    def __init__(self, prob, rho, psi, records, channel_records, hidden=()):
        self.prob = prob
        self._rho = rho           # normalised density matrix (D x D); None = |psi><psi|, built on demand
        self.psi = psi            # normalised state vector or None (mixed)
        self.records = records    # dict key -> tuple of digit tuples (one per instance)
        self.channel_records = channel_records   # dict key -> tuple of ints
        self.hidden = hidden

    @property
    def rho(self):
        if self._rho is None:
            self._rho = np.outer(self.psi, self.psi.conj())
        return self._rho

    def fork(self, prob, rho, psi):
        return Branch(prob, rho, psi, dict(self.records), dict(self.channel_records), self.hidden)

    def record_key(self):
        return (tuple(sorted((k, v) for k, v in self.records.items())),
                tuple(sorted((k, v) for k, v in self.channel_records.items())))


def initial_branch(space: Space, initial_state) -> Branch:
    D = space.D
    if isinstance(initial_state, (int, np.integer)):
        psi = np.zeros(D, dtype=np.complex128)
        psi[int(initial_state)] = 1.0
        return Branch(1.0, None, psi, {}, {})
    arr = np.asarray(initial_state, dtype=np.complex128)
    if arr.size == D:
        psi = arr.reshape(D)
        psi = psi / np.linalg.norm(psi)
        return Branch(1.0, None, psi, {}, {})
    if arr.size == D * D:
        rho = arr.reshape(D, D)
        return Branch(1.0, rho / np.trace(rho).real, None, {}, {})
    raise Unsupported("initial state of unexpected size")


# -- classical conditions, evaluated from the documented semantics ---------------------------------------

def _key_str(k) -> str:
    return str(k)


def _record_int(digits: Sequence[int], dims: Sequence[int]) -> int:
    """Big-endian integer of one measurement record (mixed radix for qudits)."""
    v = 0
    for d, base in zip(digits, dims):
        v = v * base + int(d)
    return v


def eval_condition(cond, records: Dict[str, tuple], record_dims: Dict[str, tuple], name_of=None) -> bool:
    """`name_of` translates a key as written in a sub-circuit into the key it records / reads under."""
    if name_of is None:
        name_of = lambda k: k     # noqa: E731
    if isinstance(cond, cirq.KeyCondition):
        key = name_of(_key_str(cond.key))
        if key not in records:
            raise Unsupported(f"condition on unmeasured key {key}")
        inst = records[key][cond.index]
        return any(int(b) != 0 for b in inst)
    if isinstance(cond, cirq.BitMaskKeyCondition):
        key = name_of(_key_str(cond.key))
        inst = records[key][cond.index]
        value = _record_int(inst, record_dims[key])
        if cond.bitmask is not None:
            value &= cond.bitmask
        tv = cond.target_value      # documented: (a & bitmask) == target_value -- the target is not masked
        return (value == tv) if cond.equal_target else (value != tv)
    if isinstance(cond, cirq.SympyCondition):
        # plain symbols stand for the big-endian integer of the last record of that key; `IndexedBase(key)[i]`
        # stands for digit i (big-endian) of that record -- the documented meaning
        subs = {}
        for node in sympy.preorder_traversal(cond.expr):
            if isinstance(node, sympy.Indexed):
                name = name_of(str(node.base))
                if name not in records:
                    raise Unsupported(f"sympy condition on unmeasured key {name}")
                idx = int(node.indices[0])
                subs[node] = int(records[name][-1][idx])
        expr = cond.expr.subs(subs)
        subs2 = {}
        for sym in expr.free_symbols:
            if isinstance(sym, sympy.Symbol) and not isinstance(sym, sympy.Indexed):
                name = name_of(str(sym))
                if name not in records:
                    raise Unsupported(f"sympy condition on unmeasured key {name}")
                subs2[sym] = _record_int(records[name][-1], record_dims[name])
        return bool(expr.subs(subs2))
    raise Unsupported(f"condition type {type(cond).__name__}")


class Scope:
    """One repetition of one (possibly nested) sub-circuit: how its qubits, the keys it records under and the
    keys its classical controls read translate to the top-level circuit -- from the documented meaning of
    qubit_map, measurement_key_map (applies to the *name* of a key, at every enclosing level), repetition ids
    and parent path (prepended to the key's path, outermost first)."""

    def __init__(self, parent: Optional["Scope"], qmap: dict, kmap: dict, prefix: tuple):
        self.parent, self.qmap, self.kmap, self.prefix = parent, qmap, kmap, tuple(prefix)
        self.measured = set()       # names, as written in this sub-circuit, measured so far in this repetition

    def qubit(self, q):
        q = self.qmap.get(q, q)
        return self.parent.qubit(q) if self.parent is not None else q

    def record_key(self, k) -> str:
        name, path, s = _key_str(k), (), self
        while s is not None:
            name = s.kmap.get(name, name)
            path = s.prefix + path
            s = s.parent
        return ":".join(path + (name,))

    def control_key(self, k: str) -> str:
        """The innermost enclosing measurement of that name, else the top-level key."""
        name, s = k, self
        while s is not None:
            if name in s.measured:
                return s.record_key(name)
            name = s.kmap.get(name, name)
            s = s.parent
        return name


# -- the interpreter ------------------------------------------------------------------------------------------

class QRef:
    def __init__(self, qubits: Sequence[cirq.Qid], max_branches: int = 4096, record_channels: bool = True,
                 branch_mixtures: bool = False):
        # branch_mixtures: unravel probabilistic mixtures of unitaries into hidden pure branches (used
        # where the system under test keeps a pure state and picks one unitary, e.g. stabilizer states)
        self.branch_mixtures = branch_mixtures
        # record_channels: trajectory simulators select one Kraus operator of a keyed channel and store
        # its index under the key; the density-matrix simulator applies the whole channel and stores
        # nothing (KrausChannel / MixedUnitaryChannel document exactly this)
        self.record_channels = record_channels
        self.space = Space(qubits)
        self.max_branches = max_branches
        self.record_dims: Dict[str, tuple] = {}

    # operator application ------------------------------------------------------------------------------------
    def _apply_unitary(self, b: Branch, u_full: np.ndarray) -> Branch:
        if b.psi is not None:
            return b.fork(b.prob, None, u_full @ b.psi)
        rho = u_full @ b.rho @ u_full.conj().T
        return b.fork(b.prob, rho, None)

    def _apply_kraus(self, b: Branch, ks_full: List[np.ndarray]) -> Branch:
        rho = sum(k @ b.rho @ k.conj().T for k in ks_full)
        tr = np.trace(rho).real
        return b.fork(b.prob * tr, rho / tr if tr > 0 else rho, None)

    def _measure(self, b: Branch, targets: List[int]) -> List[Tuple[Tuple[int, ...], Branch]]:
        sp = self.space
        tdims = [sp.dims[t] for t in targets]
        out = []
        for outcome in np.ndindex(*tdims):
            mask = sp.projector_mask(targets, outcome)
            if b.psi is not None:
                p = float(np.sum(np.abs(b.psi[mask]) ** 2))
                if p <= PRUNE:
                    continue
                psi = np.where(mask, b.psi, 0)
                psi = psi / np.linalg.norm(psi)
                out.append((tuple(int(x) for x in outcome), b.fork(b.prob * p, None, psi)))
                continue
            p = float(np.real(np.sum(np.diag(b.rho)[mask])))
            if p <= PRUNE:
                continue
            rho = b.rho * (mask[:, None] & mask[None, :])
            rho = rho / p
            out.append((tuple(int(x) for x in outcome), b.fork(b.prob * p, rho, None)))
        return out

    # one operation ---------------------------------------------------------------------------------------------
    def step(self, branches: List[Branch], op: cirq.Operation) -> List[Branch]:
        sp = self.space
        out: List[Branch] = []
        for b in branches:
            out.extend(self._step_branch(b, op))
        if len(out) > self.max_branches:
            raise Unsupported("too many reference branches")
        return out

    def _step_branch(self, b: Branch, op: cirq.Operation, scope: Optional[Scope] = None) -> List[Branch]:
        """`scope` is set while unrolling a CircuitOperation: the sub-circuit's qubits and keys are translated
        by it -- never through the operation's own with_qubits / with_key machinery, which is code under test."""
        sp = self.space
        name_of = scope.control_key if scope is not None else None
        if isinstance(op, cirq.TaggedOperation) and isinstance(op.untagged, cirq.ClassicallyControlledOperation):
            op = op.untagged      # tags (e.g. a noise model's PHYSICAL_GATE_TAG) carry no semantics
        if hasattr(cirq, "If") and isinstance(op.untagged, cirq.If):
            op = op.untagged
            if not all(eval_condition(c, b.records, self.record_dims, name_of) for c in op.conditions):
                return [b]
            return self._step_branch(b, op.sub_operation, scope)
        # classical control: all conditions must hold.  Inside a sub-circuit a control key means the innermost
        # enclosing sub-circuit's own measurement of that key so far (in this repetition, under the mapped and
        # scoped name), else the top-level key (measurement_key_map still applies to the name)
        if isinstance(op, cirq.ClassicallyControlledOperation):
            conds = op.classical_controls
            ok = all(eval_condition(c, b.records, self.record_dims, name_of) for c in conds)
            if not ok:
                return [b]
            return self._step_branch(b, op.without_classical_controls(), scope)
        untagged = op.untagged
        if isinstance(untagged, cirq.CircuitOperation):
            return self._circuit_operation(b, untagged, scope)
        gate = untagged.gate
        targets = [sp.index[scope.qubit(q) if scope is not None else q] for q in op.qubits]
        if isinstance(gate, cirq.MeasurementGate):
            return self._measurement_gate(b, gate, targets,
                                          key_override=(scope.record_key(gate.key) if scope else None))
        if isinstance(gate, cirq.PauliMeasurementGate):
            return self._pauli_measurement(b, gate, targets,
                                           key_override=(scope.record_key(gate.key) if scope else None))
        if scope is not None and cirq.is_measurement(untagged):
            raise Unsupported("keyed channel inside a sub-circuit")
        if getattr(gate, "_verif_composite_", False):
            # a gate defined only by its decomposition (e.g. "gate followed by its error channel"):
            # its meaning is the sequence it decomposes into
            branches = [b]
            for sub in cirq.decompose_once(untagged):
                nxt: List[Branch] = []
                for br in branches:
                    nxt.extend(self._step_branch(br, sub, scope))
                branches = nxt
            return branches
        if cirq.has_unitary(untagged):
            u = cirq.unitary(untagged)
            return [self._apply_unitary(b, sp.embed(u, targets))]
        if isinstance(untagged, cirq.ControlledOperation) and not cirq.is_measurement(untagged):
            # a controlled mixture is the mixture of the controlled unitaries (ControlledGate accepts only
            # mixtures for this reason): with probability p_i apply u_i where the controls hold one of the
            # allowed value combinations and nothing elsewhere -- coherence between the two parts is kept
            nctl = len(untagged.controls)
            ctl_t, sub_t = targets[:nctl], targets[nctl:]
            mask = np.zeros(sp.D, dtype=bool)
            for combo in untagged.control_values.expand():
                mask |= sp.projector_mask(ctl_t, combo)
            proj = np.diag(mask.astype(np.complex128))
            rest = np.eye(sp.D, dtype=np.complex128) - proj
            sub = untagged.sub_operation
            ks = [math.sqrt(float(p)) * (sp.embed(u, sub_t) @ proj + rest) for p, u in cirq.mixture(sub) if p > 0]
            if self.branch_mixtures:
                raise Unsupported("controlled mixture with hidden branches")
            return [self._apply_kraus(b, ks)]
        if self.record_channels and cirq.is_measurement(untagged) and cirq.has_kraus(untagged):
            # keyed channel: the Kraus index is recorded
            ks = [sp.embed(k, targets) for k in cirq.kraus(untagged)]
            key = _key_str(cirq.measurement_key_name(untagged))
            res = []
            for i, k in enumerate(ks):
                if b.psi is not None:
                    psi = k @ b.psi
                    p = float(np.vdot(psi, psi).real)
                    if p <= PRUNE:
                        continue
                    nb = b.fork(b.prob * p, None, psi / math.sqrt(p))
                else:
                    rho = k @ b.rho @ k.conj().T
                    p = np.trace(rho).real
                    if p <= PRUNE:
                        continue
                    nb = b.fork(b.prob * p, rho / p, None)
                nb.channel_records[key] = nb.channel_records.get(key, ()) + (i,)
                res.append(nb)
            return res
        if self.branch_mixtures and cirq.has_mixture(untagged):
            res = []
            for j, (pm, u) in enumerate(cirq.mixture(untagged)):
                if pm <= PRUNE:
                    continue
                nb = self._apply_unitary(b, sp.embed(u, targets))
                nb.prob = b.prob * float(pm)
                nb.hidden = b.hidden + (j,)
                res.append(nb)
            return res
        if cirq.has_kraus(untagged):
            ks = [sp.embed(k, targets) for k in cirq.kraus(untagged)]
            return [self._apply_kraus(b, ks)]
        raise Unsupported(f"operation {op!r}")

    def _circuit_operation(self, b: Branch, co: "cirq.CircuitOperation", outer: Optional[Scope] = None) -> List[Branch]:
        """A sub-circuit means: its operations, `repetitions` times in a row, on the qubits given by
        qubit_map, recording under measurement_key_map[key] (default: the key itself), prefixed -- when
        repetition ids are in use -- by the id of the repetition, and by the parent path; nested
        sub-circuits compose (class Scope)."""
        if co.repeat_until is not None or not isinstance(co.repetitions, (int, np.integer)):
            raise Unsupported("repeat_until / symbolic repetitions")
        reps = int(co.repetitions)
        if reps < 0:
            raise Unsupported("negative repetitions")
        if co.param_resolver:
            raise Unsupported("parameterised sub-circuit")
        qmap = dict(co.qubit_map)
        kmap = dict(co.measurement_key_map)
        ids = list(co.repetition_ids) if (co.use_repetition_ids and co.repetition_ids is not None) else None
        parent = tuple(co.parent_path)
        branches = [b]
        for i in range(reps):
            scope = Scope(outer, qmap, kmap, parent + ((ids[i],) if ids is not None else ()))
            for moment in co.circuit:
                for sop in moment.operations:
                    nxt: List[Branch] = []
                    for br in branches:
                        nxt.extend(self._step_branch(br, sop, scope))
                    branches = nxt
                for sop in moment.operations:
                    if cirq.is_measurement(sop) and not isinstance(sop.untagged, cirq.CircuitOperation):
                        scope.measured.update(_key_str(k) for k in cirq.measurement_key_objs(sop))
        return branches

    def _measurement_gate(self, b: Branch, gate: cirq.MeasurementGate, targets: List[int],
                          key_override: Optional[str] = None) -> List[Branch]:
        sp = self.space
        key = key_override if key_override is not None else _key_str(gate.key)
        dims = tuple(sp.dims[t] for t in targets)
        self.record_dims[key] = dims
        mask = gate.full_invert_mask()
        cmap = gate.confusion_map
        res: List[Branch] = []
        for outcome, nb in self._measure(b, targets):
            # documented order: confusion map first, then invert mask
            confused: List[Tuple[Tuple[int, ...], float]] = [(outcome, 1.0)]
            for idxs, mat in cmap.items():
                mat = np.asarray(mat, dtype=float)
                mdims = [dims[i] for i in idxs]
                nxt = []
                for bits, w in confused:
                    row = _record_int([outcome[i] for i in idxs], mdims)   # row from the *measured* digits
                    for col in range(mat.shape[1]):
                        pc = float(mat[row, col])
                        if pc <= PRUNE:
                            continue
                        new = list(bits)
                        rem = col
                        for i, base in reversed(list(zip(idxs, mdims))):
                            new[i] = rem % base
                            rem //= base
                        nxt.append((tuple(new), w * pc))
                confused = nxt
            for bits, w in confused:
                rec = tuple(int(bit ^ 1) if (m and bit < 2) else int(bit) for bit, m in zip(bits, mask))
                fb = nb.fork(nb.prob * w, nb._rho, nb.psi)
                fb.records[key] = fb.records.get(key, ()) + (rec,)
                res.append(fb)
        return res

    def _pauli_measurement(self, b: Branch, gate: cirq.PauliMeasurementGate, targets: List[int],
                           key_override: Optional[str] = None) -> List[Branch]:
        sp = self.space
        key = key_override if key_override is not None else _key_str(gate.key)
        obs = gate.observable()
        self.record_dims[key] = (2,)
        # observable as a full matrix: coefficient (+1/-1) times tensor product of Paulis
        mats = {cirq.X: np.array([[0, 1], [1, 0]], dtype=complex), cirq.Y: np.array([[0, -1j], [1j, 0]]),
                cirq.Z: np.array([[1, 0], [0, -1]], dtype=complex), cirq.I: np.eye(2, dtype=complex)}
        full = np.eye(sp.D, dtype=complex)
        for t, p in zip(targets, obs):
            full = full @ sp.embed(mats[p], [t])
        coeff = complex(obs.coefficient)
        if abs(coeff.imag) > 1e-12 or abs(abs(coeff.real) - 1) > 1e-12:
            raise Unsupported("Pauli observable with a non-unit coefficient")
        full = full * coeff.real
        ident = np.eye(sp.D, dtype=complex)
        res = []
        for bit, proj in ((0, (ident + full) / 2), (1, (ident - full) / 2)):
            if b.psi is not None:
                psi = proj @ b.psi
                p = float(np.vdot(psi, psi).real)
                if p <= PRUNE:
                    continue
                nb = b.fork(b.prob * p, None, psi / math.sqrt(p))
            else:
                rho = proj @ b.rho @ proj
                p = np.trace(rho).real
                if p <= PRUNE:
                    continue
                nb = b.fork(b.prob * p, rho / p, None)
            nb.records[key] = nb.records.get(key, ()) + ((bit,),)
            res.append(nb)
        return res

    # whole circuit ---------------------------------------------------------------------------------------------
    def run(self, circuit: cirq.AbstractCircuit, initial_state=0) -> List[Branch]:
        branches = [initial_branch(self.space, initial_state)]
        for moment in circuit:
            for op in moment.operations:
                branches = self.step(branches, op)
        return branches


def merge_by_records(branches: List[Branch]):
    """records-key -> (probability, probability-weighted density matrix, list of pure states or None)."""
    out: Dict = {}
    for b in branches:
        k = b.record_key()
        if k not in out:
            out[k] = [0.0, np.zeros_like(b.rho), []]
        out[k][0] += b.prob
        out[k][1] = out[k][1] + b.prob * b.rho
        out[k][2].append(b.psi)
    return out
