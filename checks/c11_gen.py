"""C11 value recipes: small JSON-able trees built from tape draws (here, in the coordinator) and interpreted
in the nodes (engines/node_main.py: Builder), so that any node can rebuild a value "locally" for comparison.

Every choice is a tape draw; value 0 of a draw is always the simplest alternative, so shrunk tapes read as
small values.  All floats are k/2^m (exact in binary and in JSON text) or multiples of pi (repr round-trips).

Bounds (DESIGN §4 C11): <= 4 qubits, <= 6 moments, nesting depth <= 3.
"""
from __future__ import annotations

from typing import List, Optional, Tuple

SYMBOLS = ("a", "b", "theta")
KEYS = ("m", "m0", "m1", "k")

EXPONENTS = (["i", 1], ["f", 1, 2], ["f", 1, 4], ["f", -1, 2], ["f", 3, 8], ["i", 0], ["i", -1], ["f", 5, 4],
             ["f", -3, 4], ["i", 2], ["f", 1, 8], ["f", 7, 4])
SHIFTS = (["i", 0], ["f", -1, 2], ["f", 1, 4], ["f", 1, 2], ["i", 1], ["f", -1, 4])
ANGLES = (["pi", 1, 2], ["pi", 1, 4], ["f", 1, 2], ["i", 0], ["pi", 1, 1], ["pi", -1, 8], ["f", -3, 4], ["pi", 3, 2])
PROBS = (["f", 1, 8], ["f", 1, 4], ["f", 1, 2], ["f", 1, 16], ["i", 0], ["f", 3, 4])
COEFS = (["i", 1], ["i", -1], ["c", 0, 1, 1], ["f", 1, 2], ["c", 0, -1, 1], ["c", 1, 1, 2], ["f", -3, 4], ["i", 2])
TURNS = (["f", 1, 4], ["f", 1, 8], ["i", 0], ["f", 1, 2], ["f", -1, 8], ["f", 3, 16])


class Gen:
    def __init__(self, tape):
        self.t = tape
        self.flags = set()        # structural facts about the value (used for probes / abstract state)
        self._share_n = 0

    # -- numbers ---------------------------------------------------------------------------------------
    def symbol(self):
        return ["s", self.t.pick(SYMBOLS, "symbol")]

    def expr(self, depth=0):
        k = self.t.weighted([4, 3, 2, 1] if depth < 2 else [1, 0, 0, 0], "expr.kind")
        if k == 0:
            return self.symbol()
        op = ("add", "mul", "pow")[k - 1]
        a = self.expr(depth + 1)
        if op == "pow":
            b = ["i", self.t.pick((2, 3, -1), "expr.pow")]
        else:
            b = self.t.pick((["i", 1], ["i", 2], ["f", 1, 2], ["s", "b"], ["i", -1], ["f", 3, 4]), "expr.rhs")
        if a == b:
            b = ["i", 2]
        self.flags.add("sympy-expr")
        return ["e", op, a, b]

    def param(self, table, label, symbolic=True):
        k = self.t.weighted([12, 2, 1] if symbolic else [1], label + ".kind")
        if k == 0:
            return self.t.pick(table, label)
        self.flags.add("symbolic")
        return self.symbol() if k == 1 else self.expr()

    # -- qids ------------------------------------------------------------------------------------------------
    def qid(self, i: int, dim: Optional[int] = None, allow_exotic: bool = True):
        """A qid that is distinct from every other qid generated with a different index `i`."""
        if dim is None or dim == 2:
            # (CleanQubit / BorrowableQubit are not registered with the JSON resolvers: outside the property)
            kinds = ["lq", "nq", "gq", "p3d", "p2d", "coupler"]
            w = [8, 8, 5, 3, 2, 2]
            if not allow_exotic:
                w = [8, 8, 5, 0, 0, 0]
            k = kinds[self.t.weighted(w, "qid.kind")]
            if k == "coupler":
                return self.coupler(i)
            if k == "lq":
                return ["lq", i]
            if k == "nq":
                self.flags.add("namedqubit")
                return ["nq", self.t.pick(("q", "a", "b10", "b9", "qubit"), "qid.name") + str(i)]
            if k == "gq":
                return ["gq", i, self.t.pick((0, 1, -1, 5), "qid.col")]
            if k == "p3d":
                self.flags.add("cached-hash-qid")
                return ["p3d", i, self.t.pick((0, 1, 2), "qid.y"), self.t.pick((0, 1), "qid.z")]
            self.flags.add("cached-hash-qid")
            return ["p2d", i, self.t.pick((0, 1, 2), "qid.y")]
        kinds = ["lqd", "nqd", "gqd", "asqid"]
        k = kinds[self.t.weighted([6, 5, 4, 3] if allow_exotic else [6, 5, 4, 0], "qid.kind")]
        self.flags.add("qudit")
        if k == "lqd":
            return ["lqd", i, dim]
        if k == "nqd":
            self.flags.add("namedqubit")
            return ["nqd", self.t.pick(("q", "a", "d"), "qid.name") + str(i), dim]
        if k == "gqd":
            return ["gqd", i, self.t.pick((0, 1, -1), "qid.col"), dim]
        self.flags.add("cached-hash-qid")
        return ["asqid", ["p3d", i, 0, 0], dim]

    def bare_qid(self):
        i = self.t.pick((0, 1, 2, 10, 3, -1), "qid.index")
        if i < 0:
            self.flags.add("negative-coordinate")
        dim = self.t.pick((2, 2, 3, 4), "qid.dim")
        return self.qid(i, dim)

    @staticmethod
    def with_other_dimension(q: list, d: int) -> Optional[list]:
        """A qid of the same class family at the SAME place as recipe `q` but with dimension d (so the two tie on
        every coordinate / name and differ in dimension only); None where that is not expressible."""
        h = q[0]
        if h == "lq":
            return ["lqd", q[1], d]
        if h == "lqd":
            return ["lqd", q[1], d] if d != 2 else ["lq", q[1]]
        if h == "gq":
            return ["gqd", q[1], q[2], d]
        if h == "gqd":
            return ["gqd", q[1], q[2], d] if d != 2 else ["gq", q[1], q[2]]
        if h == "nq":
            return ["nqd", q[1], d]
        if h == "nqd":
            return ["nqd", q[1], d] if d != 2 else ["nq", q[1]]
        if h in ("p3d", "p2d"):
            return ["asqid", q, d]
        if h == "asqid":
            return ["asqid", q[1], d] if d != 2 else q[1]
        return None

    def coupler(self, i: int = 0):
        """cirq_google.Coupler over a pair of qids: neighbours, one site with two dimensions (either order),
        mixed qid classes, negative coordinates.  (The constructor sorts its endpoints.)"""
        t = self.t
        self.flags.add("cached-hash-qid")
        self.flags.add("coupler")
        mode = t.weighted([4, 4, 3, 1], "coupler.mode")
        col = t.pick((0, 1, -1, 4), "coupler.col")
        if col < 0:
            self.flags.add("negative-coordinate")
        if mode == 0:       # neighbouring sites
            a, b = ["gq", i, col], ["gq", i, col + 1]
            if t.chance(1, 3, "coupler.line"):
                a, b = ["lq", 2 * i - 1], ["lq", 2 * i]
                if i == 0:
                    self.flags.add("negative-coordinate")
        elif mode == 1:     # one site, two dimensions
            base = t.pick((["gqd", i, col, 2], ["lqd", i, 2], ["nqd", f"r{i}", 2], ["asqid", ["p3d", i, 0, 0], 3]),
                          "coupler.base")
            d = t.pick((3, 4), "coupler.dim")
            other = self.with_other_dimension(base, d if base[0] != "asqid" else 4)
            a, b = base, other
            self.flags.add("coupler-tied")
        elif mode == 2:     # mixed classes
            a, b = t.pick(((["lq", i], ["gq", i, col]), (["gq", i, col], ["gqd", i, col, 3]),
                           (["nq", f"r{i}"], ["lq", i]), (["lq", i], ["lqd", i, 3]),
                           (["p2d", i, 1], ["gq", i, col])), "coupler.mixed")
        else:               # named
            a, b = ["nq", f"r{i}"], ["nq", f"s{i}"]
        if t.draw(2, "coupler.order"):
            a, b = b, a
        return ["coupler", a, b]

    def qid_pool(self, n: int, qudits: bool) -> List[Tuple[list, int]]:
        """n pairwise different qids.  Slot k normally sits at coordinate base+k; where qudits are allowed a slot
        may instead sit at an EARLIER slot's place with another dimension (the two then tie on every
        coordinate and differ in dimension only); base may be -1 (hash(-1) == -2 in CPython)."""
        t = self.t
        out = []
        family = t.draw(3, "pool.family")   # 0: one kind drawn per qid, 1/2: biased to plain kinds
        base = t.pick((0, 0, -1, 0, -2), "pool.base")
        if base < 0:
            self.flags.add("negative-coordinate")
        for i in range(n):
            dim = 2
            if qudits and t.chance(1, 3, "pool.qudit"):
                dim = t.pick((3, 4), "pool.dim")
            if qudits and out and t.chance(1, 4, "pool.tie"):
                k = t.draw(len(out), "pool.tie.with")
                taken = {d for (q, d) in out if q is out[k][0] or self._same_place(q, out[k][0])}
                free = [d for d in (2, 3, 4) if d not in taken]
                tied = self.with_other_dimension(out[k][0], t.pick(free, "pool.tie.dim")) if free else None
                if tied is not None and all(tied != q for q, _ in out):
                    self.flags.add("tied-qids")
                    self.flags.add("qudit")
                    out.append((tied, tied[-1] if tied[0] in ("lqd", "gqd", "nqd", "asqid") else 2))
                    continue
            out.append((self.qid(base + i, dim, allow_exotic=(family == 0)), dim))
        return out

    @staticmethod
    def _same_place(a: list, b: list) -> bool:
        def place(q):
            h = q[0]
            if h in ("lq", "lqd"):
                return ("line", q[1])
            if h in ("gq", "gqd"):
                return ("grid", q[1], q[2])
            if h in ("nq", "nqd"):
                return ("named", q[1])
            if h == "asqid":
                return ("wrapped", repr(q[1]))
            return ("other", repr(q))
        pa, pb = place(a), place(b)
        if pa[0] == "wrapped" or pb[0] == "wrapped":
            inner_a = repr(a[1]) if a[0] == "asqid" else repr(a)
            inner_b = repr(b[1]) if b[0] == "asqid" else repr(b)
            return inner_a == inner_b
        return pa == pb

    # -- keys / small values -----------------------------------------------------------------------------
    def key_name(self):
        return self.t.pick(KEYS, "key")

    def mkey(self):
        n = self.t.weighted([3, 2, 1], "mkey.pathlen")
        self.flags.add("measurement-key")
        return ["mkey", self.key_name(), [self.t.pick(("p", "0", "outer"), "mkey.path") for _ in range(n)]]

    def key(self):
        return self.mkey() if self.t.chance(1, 3, "key.object") else self.key_name()

    def duration(self):
        unit = self.t.pick(("nanos", "picos", "micros", "millis"), "duration.unit")
        n = self.t.pick((["i", 10], ["i", 0], ["f", 5, 2], ["i", 1000], ["s", "a"]), "duration.value")
        return ["duration", unit, n]

    def resolver(self):
        n = self.t.between(0, 3, "resolver.n")
        pairs, seen = [], set()
        for _ in range(n):
            k = self.t.pick(SYMBOLS, "resolver.key")
            if k in seen:
                continue
            seen.add(k)
            key = k if self.t.chance(1, 2, "resolver.strkey") else ["s", k]
            pairs.append([key, self.t.pick((["f", 1, 2], ["i", 1], ["f", -3, 4], ["s", "b"], ["c", 1, 1, 2]),
                                           "resolver.value")])
        return ["resolver", pairs]

    def sweep(self, depth=0):
        k = self.t.weighted([3, 3, 1, 1] if depth == 0 else [1, 1, 0, 0], "sweep.kind")
        if k == 0:
            return ["sweep", "linspace", self.t.pick(SYMBOLS, "sweep.key"), ["f", 0, 1], ["f", 1, 2],
                    self.t.between(1, 5, "sweep.len")]
        if k == 1:
            return ["sweep", "points", self.t.pick(SYMBOLS, "sweep.key"),
                    [self.t.pick(TURNS, "sweep.point") for _ in range(self.t.between(1, 3, "sweep.n"))]]
        a = ["sweep", "linspace", "a", ["i", 0], ["i", 1], 2]
        b = ["sweep", "points", "b", [["f", 1, 2], ["f", 1, 4]]]
        return ["sweep", "zip" if k == 2 else "product", [a, b]]

    def tags(self):
        out = []
        for _ in range(self.t.between(1, 2, "tags.n")):
            k = self.t.weighted([4, 2, 2, 1, 1, 1], "tag.kind")
            out.append([["tag", "str", self.t.pick(("t", "tag2"), "tag.str")], ["tag", "virtual"],
                        ["tag", "physz"], ["tag", "routing"], ["tag", "calib", "cal"], ["tag", "compress"]][k])
        # duplicates are legal
        self.flags.add("tags")
        return out

    # -- gates -----------------------------------------------------------------------------------------------
    def gate(self, dims: Tuple[int, ...], symbolic=True):
        """(recipe, invertible, measures) for a gate acting on qids of these dimensions."""
        n = len(dims)
        t = self.t
        if any(d != 2 for d in dims):
            k = t.weighted([4, 4, 2, 2] if n == 1 else [4, 4, 0, 2], "qudit-gate.kind")
            if k == 0:
                return ["identity", list(dims)], True, False
            if k == 1:
                return self.measurement(dims), False, True
            if k == 2:
                return ["reset", dims[0]], False, False
            return ["wait", self.duration(), list(dims)], False, False
        if n == 1:
            k = t.weighted([10, 8, 3, 3, 2, 3, 5, 2, 1, 2, 2, 1, 1, 1], "gate1.kind")
            if k == 0:
                return ["g", t.pick(("X", "Y", "Z", "H", "S", "T", "I"), "gate1.name")], True, False
            if k == 1:
                return ["eigen", t.pick(("XPow", "YPow", "ZPow", "HPow"), "gate1.eigen"),
                        self.param(EXPONENTS, "exponent", symbolic), t.pick(SHIFTS, "shift")], True, False
            if k == 2:
                return ["rot", t.pick("xyz", "rot.axis"), self.param(ANGLES, "rads", symbolic)], True, False
            if k == 3:
                return ["phasedx", self.param(TURNS, "phase_exponent", symbolic),
                        self.param(EXPONENTS, "exponent", symbolic), t.pick(SHIFTS, "shift")], True, False
            if k == 4:
                return ["phasedxz", t.pick(TURNS, "x"), t.pick(TURNS, "z"), t.pick(TURNS, "a")], True, False
            if k == 5:
                return ["sqcliff", t.pick(("H", "X", "S", "X_sqrt", "Y_nsqrt", "Z_nsqrt", "I", "Y", "Z",
                                          "X_nsqrt", "Y_sqrt", "Z_sqrt"), "sqcliff")], True, False
            if k == 6:
                return self.measurement(dims), False, True
            if k == 7:
                ck = t.weighted([6, 2, 2], "channel.kind")
                if ck == 1:     # unhashable operations: circuits holding them are unhashable too
                    self.flags.add("unhashable-op")
                    self.flags.add("numpy-payload")
                    key = t.pick((None, "kk"), "kraus.key")
                    return ["kraus", [[[["i", 1], ["i", 0]], [["i", 0], ["i", 0]]],
                                      [[["i", 0], ["i", 0]], [["i", 0], ["i", 1]]]], key], False, key is not None
                if ck == 2:
                    self.flags.add("unhashable-op")
                    self.flags.add("numpy-payload")
                    key = t.pick((None, "mk"), "mixed.key")
                    return ["mixedunitary", [[["f", 1, 2], [[["i", 1], ["i", 0]], [["i", 0], ["i", 1]]]],
                                             [["f", 1, 2], [[["i", 0], ["i", 1]], [["i", 1], ["i", 0]]]]],
                            key], False, key is not None
                return ["channel", t.pick(("depolarize", "amplitude_damp", "phase_damp", "bit_flip", "phase_flip"),
                                          "channel"), t.pick(PROBS, "p")], False, False
            if k == 8:
                return ["g", "R"], False, False
            if k == 9:
                m = t.pick(([[["i", 0], ["i", 1]], [["i", 1], ["i", 0]]],
                            [[["i", 1], ["i", 0]], [["i", 0], ["c", 0, 1, 1]]],
                            [[["i", 0], ["c", 0, -1, 1]], [["c", 0, 1, 1], ["i", 0]]]), "matrix1")
                self.flags.add("numpy-payload")
                opts = {}
                how = t.weighted([6, 2, 2, 1], "matrix1.storage")
                if how == 1:
                    opts["dtype"] = t.pick(("complex128", "complex64"), "matrix1.dtype")
                elif how == 2:      # zeros written as -0.0
                    m = [[(["nz"] if x == ["i", 0] else x) for x in row] for row in m]
                elif how == 3:      # a matrix that is only nearly unitary, accepted because the check is off
                    m = [[["f", 9, 8], ["i", 0]], [["i", 0], ["i", 1]]]
                    opts["unitary_check"] = False
                    self.flags.add("matrix-unchecked")
                return ["matrix", m, None, t.pick((None, "U"), "matrix.name")] + ([opts] if opts else []), how != 3, False
            if k == 10:
                return ["wait", self.duration(), [2]], False, False
            if k == 11:
                return ["ionq", t.pick(("GPI", "GPI2"), "ionq1"), t.pick(TURNS, "phi")], False, False
            if k == 12:
                return ["cliffgate", 1, [[t.pick(("H", "S", "X"), "cliff.op"), [0]]]], True, False
            return ["pow", ["g", t.pick(("X", "Z", "H"), "pow.base")], self.param(EXPONENTS, "pow", symbolic)], True, False
        if n == 2:
            k = t.weighted([10, 8, 3, 2, 3, 2, 2, 2, 2, 2, 2, 2], "gate2.kind")
            if k == 0:
                return ["g", t.pick(("CNOT", "CZ", "SWAP", "ISWAP", "SQRT_ISWAP", "SYC", "XX", "YY", "ZZ",
                                     "SycamoreGate", "WillowGate"), "gate2.name")], True, False
            if k == 1:
                return ["eigen", t.pick(("CZPow", "CXPow", "SwapPow", "ISwapPow", "XXPow", "YYPow", "ZZPow"),
                                        "gate2.eigen"), self.param(EXPONENTS, "exponent", symbolic),
                        t.pick(SHIFTS, "shift")], True, False
            if k == 2:
                return ["fsim", self.param(ANGLES, "theta", symbolic), self.param(ANGLES, "phi", symbolic)], True, False
            if k == 3:
                return ["pfsim", t.pick(ANGLES, "theta"), t.pick(ANGLES, "zeta"), t.pick(ANGLES, "chi"),
                        t.pick(ANGLES, "gamma"), t.pick(ANGLES, "phi")], False, False
            if k == 4:
                return self.measurement(dims), False, True
            if k == 5:
                sub = t.pick((["g", "X"], ["g", "Z"], ["g", "H"], ["eigen", "YPow", ["f", 1, 2], ["i", 0]],
                              ["eigen", "ZPow", ["f", 1, 4], ["f", -1, 2]], ["g", "S"]), "controlled.sub")
                vals = t.pick((None, [0], [1], [[0, 1]]), "controlled.values")
                return ["controlled", sub, 1, vals, None], True, False
            if k == 6:
                m = t.pick(([[1, 0, 0, 0], [0, 0, 1, 0], [0, 1, 0, 0], [0, 0, 0, 1]],
                            [[0, 1, 0, 0], [1, 0, 0, 0], [0, 0, 0, 1], [0, 0, 1, 0]]), "matrix2")
                self.flags.add("numpy-payload")
                return ["matrix", [[["i", x] for x in row] for row in m], None, None], True, False
            if k == 7:
                return ["perm", [1, 0]], False, False
            if k == 8:
                which = t.pick(("MS", "ZZ"), "ionq2")
                if which == "MS":
                    return ["ionq", "MS", t.pick(TURNS, "phi0"), t.pick(TURNS, "phi1"), t.pick(TURNS, "theta")], False, False
                return ["ionq", "ZZ", t.pick(TURNS, "theta")], False, False
            if k == 9:
                ops = [[t.pick(("H", "S", "X", "Z"), "cliff.op1"), [t.draw(2, "cliff.q")]] for _ in
                       range(t.between(0, 2, "cliff.n1"))] + [[t.pick(("CNOT", "CZ", "SWAP"), "cliff.op2"), [0, 1]]]
                self.flags.add("tableau")
                return ["cliffgate", 2, ops], True, False
            if k == 10:
                kw = [[t.pick(("x", "amp"), "internal.kw"), t.pick(TURNS, "internal.v")]] if t.chance(1, 2, "internal.haskw") else []
                return ["internal", t.pick(("CouplerDelay", "G"), "internal.name"),
                        t.pick(("internal_module", None), "internal.module"), 2, kw], False, False
            return ["identity", [2, 2]], True, False
        k = t.weighted([6, 3, 3, 2, 2], "gate3.kind")
        if k == 0:
            return ["g", t.pick(("CCX", "CCZ", "CSWAP"), "gate3.name")], True, False
        if k == 1:
            return ["eigen", t.pick(("CCXPow", "CCZPow"), "gate3.eigen"), self.param(EXPONENTS, "exponent", symbolic),
                    t.pick(SHIFTS, "shift")], True, False
        if k == 2:
            return self.measurement(dims), False, True
        if k == 3:
            return ["controlled", ["g", t.pick(("CZ", "SWAP"), "controlled.sub2")], 1, None, None], True, False
        return ["perm", t.pick(([1, 2, 0], [2, 1, 0], [0, 2, 1]), "perm3")], False, False

    # -- operations / moments / circuits -----------------------------------------------------------------
    def operation(self, qids: List[Tuple[list, int]], depth: int):
        """(recipe, invertible) for one operation on exactly these qids."""
        t = self.t
        dims = tuple(d for _, d in qids)
        qs = [q for q, _ in qids]
        if depth < 2 and all(d == 2 for d in dims) and t.chance(1, 8, "op.subcircuit"):
            return self.circuit_op(qids, depth + 1)
        g, inv, measures = self.gate(dims)
        op = ["op", g, qs]
        deco = t.weighted([10, 3, 2], "op.decoration")
        if deco == 1:
            op = ["tagged", op, self.tags()]
        elif deco == 2 and not measures:
            conds = [self.condition() for _ in range(t.between(1, 2, "cop.n"))]
            op = ["cop", op, conds]
            self.flags.add("classical-control")
            inv = False
        return op, inv

    def condition(self):
        """A classical condition of any of the three kinds, with boundary values (0 and other falsy /
        non-default arguments are where readers and writers drop fields)."""
        t = self.t
        ck = t.weighted([3, 3, 3, 2], "cond.kind")
        if ck == 0:
            return self.key_name()                     # a plain string: KeyCondition(key)
        if ck == 1:
            return ["keycond", self.mkey(), t.pick((-1, 0, -2, 1), "keycond.index")]
        if ck == 2:
            key = self.key_name() if t.chance(1, 2, "bitmask.strkey") is False else self.mkey()
            return ["bitmaskcond", key, t.pick((-1, 0, 1, -2), "bitmask.index"),
                    t.pick((0, 1, 2, 5), "bitmask.target"), bool(t.draw(2, "bitmask.equal")),
                    t.pick((None, 0, 1, 3, 13), "bitmask.mask")]
        return ["sympycond", self.key_name(), t.pick(("gt", "ge", "lt", "eq", "ne"), "cond.op"),
                t.pick((0, 1), "cond.rhs")]

    def stochastic(self, n: int):
        """An n x n row-stochastic matrix with entries in eighths (exact), drawn row by row: asymmetric with
        overwhelming probability, so a permuted index order is visible."""
        rows = []
        for _ in range(n):
            left, row = 8, []
            for j in range(n - 1):
                k = self.t.between(0, left, "stochastic.entry")
                row.append(k)
                left -= k
            row.append(left)
            rows.append([["f", x, 8] for x in row])
        return rows

    def measurement(self, dims: Tuple[int, ...]):
        """MeasurementGate with every optional argument exercised: key objects, partial invert masks,
        qid_shape, confusion maps on one or two indices in ascending or non-ascending order."""
        t = self.t
        n = len(dims)
        inv = None
        if t.chance(1, 2, "measure.invert"):
            inv = [t.draw(2, "measure.bit") for _ in range(t.between(1, n, "measure.masklen"))]
        shape = list(dims) if (any(d != 2 for d in dims) or t.chance(1, 6, "measure.shape")) else None
        conf = None
        if t.chance(1, 3, "measure.confusion"):
            conf = []
            order = t.shuffle(list(range(n)), "measure.confusion.order")
            if n >= 2 and t.chance(1, 2, "measure.confusion.pair") and dims[order[0]] * dims[order[1]] <= 6:
                idx = [order[0], order[1]]
                conf.append([idx, self.stochastic(dims[idx[0]] * dims[idx[1]])])
                rest = order[2:]
            else:
                rest = order
            if rest and (not conf or t.chance(1, 2, "measure.confusion.more")):
                conf.append([[rest[0]], self.stochastic(dims[rest[0]])])
            self.flags.add("confusion-map")
            self.flags.add("numpy-payload")
        return ["measure", n, self.key(), inv, shape, conf]

    def moment(self, pool: List[Tuple[list, int]], depth: int):
        t = self.t
        order = t.shuffle(list(range(len(pool))), "moment.order")
        ops, inv = [], True
        i = 0
        n_ops = t.between(1, 3, "moment.ops")
        while i < len(order) and len(ops) < n_ops:
            arity = min(1 + t.weighted([5, 4, 1], "op.arity"), len(order) - i)
            op, op_inv = self.operation([pool[j] for j in order[i:i + arity]], depth)
            ops.append(op)
            inv = inv and op_inv
            i += arity
        return ["moment", ops], inv

    def moments(self, pool, depth: int, max_moments: int = 6):
        n = self.t.between(0 if depth == 0 else 1, max_moments, "circuit.moments")
        out, inv = [], True
        for _ in range(n):
            m, m_inv = self.moment(pool, depth)
            out.append(m)
            inv = inv and m_inv
        return out, inv

    def circuit(self, depth=0, qudits=True):
        pool = self.qid_pool(self.t.between(1, 4, "circuit.qubits"), qudits)
        ms, _ = self.moments(pool, depth)
        return ["circuit", ms]

    def frozen(self, pool=None, depth=0):
        if pool is None:
            pool = self.qid_pool(self.t.between(1, 3, "frozen.qubits"), qudits=False)
        ms, inv = self.moments(pool, depth, max_moments=3)
        tags = self.tags() if self.t.chance(1, 5, "frozen.tags") else []
        self.flags.add("frozen")
        return ["frozen", ms, tags], inv, pool

    def circuit_op_options(self, pool, inv: bool, frozen_recipe, allow_qubit_map: bool = True) -> dict:
        t = self.t
        opts = {}
        rk = t.weighted([6, 4, 2, 1], "cop.repetitions")
        reps = 1
        symbolic_reps = False
        if rk == 1:
            reps = t.pick((2, 3, 0), "cop.reps")
            opts["repetitions"] = ["i", reps]
        elif rk == 2 and inv:
            reps = t.pick((-1, -2), "cop.negreps")
            opts["repetitions"] = ["i", reps]
        elif rk == 3:
            opts["repetitions"] = ["s", "n"]
            symbolic_reps = True
        if not symbolic_reps:
            ik = t.weighted([5, 2, 2, 2], "cop.ids")
            if ik == 1 and abs(reps) > 0:
                opts["repetition_ids"] = [t.pick(("r", "x", "0"), "cop.id") + str(j) for j in range(abs(reps))]
                # explicit ids with the flag left out, set, or cleared (the constructor then keeps ids it
                # does not use, and equality compares them)
                flag = t.weighted([3, 2, 2], "cop.use_ids_explicit")
                if flag:
                    opts["use_repetition_ids"] = (flag == 1)
            elif ik == 2:
                opts["use_repetition_ids"] = True
            elif ik == 3:
                opts["use_repetition_ids"] = False
        if allow_qubit_map and t.chance(1, 3, "cop.qubit_map"):
            pairs = []
            for (q, d) in pool:
                if t.chance(1, 2, "cop.map.this"):
                    # images are qids of the same dimension with indices no qid of the pool uses
                    pairs.append([q, self.qid(20 + len(pairs), d, allow_exotic=False)])
            if pairs:
                opts["qubit_map"] = pairs
        if t.chance(1, 4, "cop.key_map"):
            opts["measurement_key_map"] = [[k, k + "_mapped"] for k in KEYS[:t.between(1, 3, "cop.keys")]]
        if t.chance(1, 4, "cop.param_resolver"):
            opts["param_resolver"] = [[s, t.pick((["f", 1, 2], ["i", 1], ["s", "theta"]), "cop.param")]
                                      for s in SYMBOLS[:t.between(1, 2, "cop.params")]]
        if t.chance(1, 5, "cop.parent_path"):
            opts["parent_path"] = [t.pick(("outer", "p"), "cop.path") for _ in range(t.between(1, 2, "cop.pathlen"))]
        return opts

    def circuit_op(self, qids: List[Tuple[list, int]], depth: int):
        """A CircuitOperation acting on exactly these (dimension-2) qids."""
        t = self.t
        self.flags.add("circuit-operation")
        if depth >= 2:
            self.flags.add("nested-circuit-operation")
        # the sub-circuit must touch every qid of `qids`, so that the operation's qubits are exactly these
        ms, inv = [], True
        first_ops, i = [], 0
        while i < len(qids):
            arity = min(1 + t.weighted([5, 4, 1], "sub.arity"), len(qids) - i)
            op, op_inv = self.operation(qids[i:i + arity], depth)
            first_ops.append(op)
            inv = inv and op_inv
            i += arity
        ms.append(["moment", first_ops])
        for _ in range(t.between(0, 2, "sub.more-moments")):
            m, m_inv = self.moment(qids, depth)
            ms.append(m)
            inv = inv and m_inv
        if t.chance(1, 3, "sub.feedforward"):
            # the operation then carries BOTH measurement keys and control keys: a measurement, an operation
            # controlled on its key, and one controlled on a key measured outside
            k = self.key_name()
            q = qids[0][0]
            ms.append(["moment", [["op", ["measure", 1, k, None, None, None], [q]]]])
            ms.append(["moment", [["cop", ["op", ["g", "X"], [q]], [k]]]])
            ms.append(["moment", [["cop", ["op", ["g", "Z"], [q]], [self.condition()]]]])
            self.flags.add("measurement-and-control-keys")
            inv = False
        frozen = ["frozen", ms, []]
        if t.chance(1, 3, "sub.share"):
            frozen = ["share", f"s{self._share_n}", frozen]
            self._share_n += 1
        self.flags.add("frozen")
        # no qubit map in nested positions: the enclosing moment was laid out for the unmapped qids
        opts = self.circuit_op_options(qids, inv, frozen, allow_qubit_map=False)
        return ["circuitop", frozen, opts], inv

    def top_circuit_op(self):
        pool = self.qid_pool(self.t.between(1, 3, "cop.qubits"), qudits=False)
        frozen, inv, pool = self.frozen(pool, depth=1)
        if self.t.chance(1, 3, "cop.feedforward"):
            k = self.key_name()
            q = pool[0][0]
            frozen[1] = frozen[1] + [["moment", [["op", ["measure", 1, k, None, None, None], [q]]]],
                                     ["moment", [["cop", ["op", ["g", "X"], [q]], [k]]]],
                                     ["moment", [["cop", ["op", ["g", "Z"], [q]], [self.condition()]]]]]
            self.flags.add("measurement-and-control-keys")
            inv = False
        opts = self.circuit_op_options(pool, inv, frozen)
        self.flags.add("circuit-operation")
        return ["circuitop", frozen, opts]

    def shared(self):
        """The same FrozenCircuit *instance* twice inside one container (VAL then REF in the JSON text)."""
        t = self.t
        self.flags.add("shared-frozen")
        self.flags.add("circuit-operation")
        pool = self.qid_pool(t.between(1, 2, "shared.qubits"), qudits=False)
        fa, inv_a, _ = self.frozen(pool, depth=1)
        self._share_n += 1
        tag = self._share_n          # share keys are unique within one recipe tree
        sa = ["share", f"A{tag}", fa]
        shape = t.weighted([3, 3, 2, 2], "shared.shape")
        if shape == 0:
            return ["list", [sa, sa]]
        if shape == 1:
            return ["circuit", [["moment", [["circuitop", sa, {}]]],
                                ["moment", [["circuitop", sa, self.circuit_op_options(pool, inv_a, sa)]]]]]
        fb, inv_b, _ = self.frozen(pool, depth=1)
        sb = ["share", f"B{tag}", fb]
        if shape == 2:
            return ["list", [["circuitop", sa, {}], ["circuitop", sb, {}],
                             ["circuitop", sa, self.circuit_op_options(pool, inv_a, sa)]]]
        # a frozen circuit whose moments hold circuit operations sharing A, then B, then A again
        return ["frozen", [["moment", [["circuitop", sa, {}]]], ["moment", [["circuitop", sb, {}]]],
                           ["moment", [["circuitop", sa, {"repetitions": ["i", 2]}]]]], []]

    # -- Pauli algebra / results / tableaux -------------------------------------------------------------------
    def collide(self):
        """Two DIFFERENT FrozenCircuits with the SAME hash in one document: CPython has hash(-1) == hash(-2), so
        twins that differ only in a coordinate -1 / -2 (or in repetitions=-1 / -2 of a nested CircuitOperation)
        collide.  A memo keyed by hash instead of by value would merge them."""
        t = self.t
        self.flags.add("hash-collision-pair")
        self.flags.add("frozen")
        self.flags.add("negative-coordinate")
        where = t.weighted([4, 3, 2], "collide.where")
        others = [(["lq", 3], 2), (["nq", "c"], 2)][:t.between(0, 2, "collide.others")]
        if where == 0:
            qa, qb = ["lq", -1], ["lq", -2]
        elif where == 1:
            col = t.pick((0, 2), "collide.col")
            qa, qb = (["gq", -1, col], ["gq", -2, col]) if t.draw(2, "collide.row") == 0 else (["gq", col, -1], ["gq", col, -2])
        else:
            qa = qb = ["lq", 0]
        pool = [(qa, 2)] + others
        ms, inv = self.moments(pool, depth=2, max_moments=3)      # depth 2: no nested sub-circuits in here
        fa = ["frozen", ms, []]
        if where == 2:
            # the twins differ in the repetitions of a nested operation (needs an invertible inner circuit)
            inner = ["frozen", [["moment", [["op", ["g", t.pick(("X", "S", "H"), "collide.inner")], [["lq", 0]]]]]], []]
            fa = ["frozen", [["moment", [["circuitop", inner, {"repetitions": ["i", -1]}]]]], []]
            fb = ["frozen", [["moment", [["circuitop", inner, {"repetitions": ["i", -2]}]]]], []]
        else:
            fb = _replace(fa, qa, qb)
        shape = t.weighted([3, 3, 2, 2], "collide.shape")
        if shape == 0:
            return ["list", [fa, fb]]
        if shape == 1:
            return ["list", [["circuitop", fa, {}], ["circuitop", fb, {}], ["circuitop", fa, {"repetitions": ["i", 2]}]]]
        if shape == 2:
            return ["circuit", [["moment", [["circuitop", fa, {}]]], ["moment", [["circuitop", fb, {}]]]]]
        return ["dict", [["first", fa], ["second", fb]]]

    def vendor(self):
        """Vendor gates that are cheap to build, bare or on qubits (optionally with vendor tags)."""
        t = self.t
        k = t.weighted([4, 2, 2, 2], "vendor.kind")
        if k == 0:
            nq = 1 + t.draw(2, "internal.qubits")
            kw = [[t.pick(("x", "amp"), "internal.kw"), t.pick(TURNS, "internal.v")]] if t.chance(1, 2, "internal.haskw") else []
            g = ["internal", t.pick(("CouplerDelay", "G"), "internal.name"),
                 t.pick((None, "internal_module", "m"), "internal.module"), nq, kw]
        elif k == 1:
            nq = 2
            g = ["g", t.pick(("SYC", "SycamoreGate", "WillowGate"), "vendor.google")]
        elif k == 2:
            nq = 1
            g = ["ionq", t.pick(("GPI", "GPI2"), "ionq1"), t.pick(TURNS, "phi")]
        else:
            nq = 2
            g = (["ionq", "MS", t.pick(TURNS, "phi0"), t.pick(TURNS, "phi1"), t.pick(TURNS, "theta")]
                 if t.draw(2, "ionq2") == 0 else ["ionq", "ZZ", t.pick(TURNS, "theta")])
        form = t.weighted([3, 3, 2], "vendor.form")
        if form == 0:
            return g
        qs = [q for q, _ in self.qid_pool(nq, qudits=False)]
        op = ["op", g, qs]
        if form == 2:
            op = ["tagged", op, [["tag", "physz"], ["tag", "calib", "cal"], ["tag", "compress"]][:1 + t.draw(3, "vendor.tags")]]
        return op

    def pauli_string(self, pool=None):
        t = self.t
        if pool is None:
            pool = self.qid_pool(t.between(0, 3, "ps.qubits"), qudits=False)
        pairs = [[q, t.pick("XYZ", "ps.pauli")] for q, _ in pool]
        self.flags.add("pauli")
        return ["pstring", t.pick(COEFS, "ps.coef"), pairs]

    def pauli_sum(self):
        pool = self.qid_pool(self.t.between(1, 3, "psum.qubits"), qudits=False)
        terms = []
        for _ in range(self.t.between(1, 3, "psum.terms")):
            sub = [p for p in pool if self.t.chance(2, 3, "psum.use")] or pool[:1]
            terms.append(self.pauli_string(sub))
        return ["psum", terms]

    def dense_pauli(self):
        t = self.t
        s = "".join(t.pick("XYZI", "dps.pauli") for _ in range(t.between(1, 4, "dps.len")))
        self.flags.add("pauli")
        return ["dps", s, t.pick(COEFS[:5], "dps.coef"), bool(t.chance(1, 4, "dps.mutable"))]

    def result(self):
        t = self.t
        recs = []
        reps = t.pick((1, 2, 3, 0), "result.reps")       # 0: an empty result keeps its 3D shape
        for k in KEYS[:t.between(1, 2, "result.keys")]:
            inst, bits = t.between(1, 2, "result.instances"), t.between(1, 3, "result.bits")
            recs.append([k, [[[t.draw(2, "result.bit") for _ in range(bits)] for _ in range(inst)] for _ in range(reps)],
                         [reps, inst, bits]])
        if reps == 0:
            self.flags.add("empty-result")
        self.flags.add("numpy-payload")
        return ["result", self.resolver(), recs]

    def tableau(self):
        t = self.t
        n = t.between(1, 3, "tableau.n")
        ops = []
        for _ in range(t.between(0, 4, "tableau.ops")):
            if n >= 2 and t.chance(1, 3, "tableau.two"):
                a = t.draw(n, "tableau.q0")
                b = (a + 1 + t.draw(n - 1, "tableau.q1")) % n
                ops.append([t.pick(("CNOT", "CZ", "SWAP"), "tableau.op2"), [a, b]])
            else:
                ops.append([t.pick(("H", "S", "X", "Y", "Z"), "tableau.op1"), [t.draw(n, "tableau.q")]])
        self.flags.add("tableau")
        return ["tableau", n, ops]

    # -- top level ---------------------------------------------------------------------------------------------
    KINDS = ("qid", "op", "circuit", "frozen", "circuitop", "shared", "gate", "moment", "mkey", "pstring",
             "psum", "dps", "result", "sympy", "tableau", "cliffgate", "resolver", "sweep", "list", "dict",
             "duration", "phasor", "coupler", "condition", "vendor", "collide", "lineardict", "channelgate")
    WEIGHTS = (6, 8, 10, 8, 10, 8, 6, 4, 3, 4, 2, 3, 3, 3, 3, 2, 2, 2, 4, 2, 1, 2, 4, 4, 4, 4, 2, 3)

    def value(self, allow_container=True):
        """(kind, recipe)"""
        t = self.t
        kind = self.KINDS[t.weighted(self.WEIGHTS, "value.kind")]
        if kind in ("list", "dict") and not allow_container:
            kind = "op"
        if kind == "qid":
            return kind, self.bare_qid()
        if kind == "op":
            pool = self.qid_pool(t.between(1, 3, "op.qubits"), qudits=True)
            op, _ = self.operation(pool, depth=0)
            return kind, op
        if kind == "circuit":
            return kind, self.circuit()
        if kind == "frozen":
            f, _, _ = self.frozen()
            return kind, f
        if kind == "circuitop":
            return kind, self.top_circuit_op()
        if kind == "shared":
            return kind, self.shared()
        if kind == "gate":
            dims = t.pick(((2,), (2, 2), (3,), (2, 2, 2), (2, 3)), "gate.dims")
            g, _, _ = self.gate(dims)
            return kind, g
        if kind == "moment":
            pool = self.qid_pool(t.between(1, 4, "moment.qubits"), qudits=True)
            m, _ = self.moment(pool, depth=0)
            return kind, m
        if kind == "mkey":
            return kind, self.mkey()
        if kind == "condition":
            c = self.condition()
            if isinstance(c, str):
                c = ["keycond", ["mkey", c, []], -1]
            self.flags.add("classical-control")
            return kind, c
        if kind == "pstring":
            return kind, self.pauli_string()
        if kind == "psum":
            return kind, self.pauli_sum()
        if kind == "dps":
            return kind, self.dense_pauli()
        if kind == "result":
            return kind, self.result()
        if kind == "sympy":
            self.flags.add("sympy-expr")
            return kind, ["num", self.expr()]
        if kind == "tableau":
            return kind, self.tableau()
        if kind == "cliffgate":
            tb = self.tableau()
            return kind, ["cliffgate", tb[1], tb[2]]
        if kind == "resolver":
            return kind, self.resolver()
        if kind == "sweep":
            return kind, self.sweep()
        if kind == "duration":
            return kind, self.duration()
        if kind == "phasor":
            ps = self.pauli_string(self.qid_pool(t.between(1, 3, "phasor.qubits"), qudits=False))
            ps[1] = t.pick((["i", 1], ["i", -1]), "phasor.coef")
            return kind, ["phasor", ps, self.param(EXPONENTS, "exponent_neg"), t.pick(EXPONENTS, "exponent_pos")]
        if kind == "vendor":
            return kind, self.vendor()
        if kind == "collide":
            return kind, self.collide()
        if kind == "channelgate":
            # a bare KrausChannel / MixedUnitaryChannel (unhashable, numpy payloads, == through np.allclose)
            self.flags.add("numpy-payload")
            key = t.pick((None, "ck"), "channelgate.key")
            p0 = [[["i", 1], ["i", 0]], [["i", 0], ["i", 0]]]
            p1 = [[["i", 0], ["i", 0]], [["i", 0], ["i", 1]]]
            x = [[["i", 0], ["i", 1]], [["i", 1], ["i", 0]]]
            eye = [[["i", 1], ["i", 0]], [["i", 0], ["i", 1]]]
            if t.draw(2, "channelgate.kind") == 0:
                return kind, ["kraus", [p0, p1] if t.draw(2, "channelgate.ops") == 0 else [eye], key]
            return kind, ["mixedunitary", [[["f", 1, 2], eye], [["f", 1, 2], x]], key]
        if kind == "lineardict":
            keys = t.pick((("a", "b"), ("x",), (["a", "b"], "c"), ([1, 2],)), "lineardict.keys")
            if any(isinstance(k, list) for k in keys):
                self.flags.add("lineardict-tuple-key")
            return kind, ["lineardict", [[k, t.pick(COEFS, "lineardict.coef")] for k in keys]]
        if kind == "coupler":
            return kind, self.coupler(t.pick((0, 1, 5), "coupler.index"))
        if kind == "list":
            items = [self.value(allow_container=False)[1] for _ in range(t.between(1, 3, "list.n"))]
            return kind, ["list", items]
        items = [[f"k{j}", self.value(allow_container=False)[1]] for j in range(t.between(1, 3, "dict.n"))]
        return "dict", ["dict", items]


def contains(recipe, head: str) -> bool:
    if isinstance(recipe, list):
        if recipe and recipe[0] == head:
            return True
        return any(contains(x, head) for x in recipe)
    if isinstance(recipe, dict):
        return any(contains(x, head) for x in recipe.values())
    return False


def named_in_circuitop_in_frozen(recipe, in_frozen=False, in_cop=False) -> bool:
    """NamedQubit inside CircuitOperation inside FrozenCircuit (a DESIGN probe)."""
    if isinstance(recipe, dict):
        return any(named_in_circuitop_in_frozen(x, in_frozen, in_cop) for x in recipe.values())
    if not isinstance(recipe, list) or not recipe:
        return False
    h = recipe[0]
    if h in ("nq", "nqd") and in_cop:
        return True
    if h == "frozen":
        return any(named_in_circuitop_in_frozen(x, True, in_cop) for x in recipe[1:])
    if h == "circuitop":
        # the operation's own circuit is a FrozenCircuit; the probe asks for an *enclosing* one as well
        return any(named_in_circuitop_in_frozen(x, in_frozen, in_cop or in_frozen) for x in recipe[1:])
    return any(named_in_circuitop_in_frozen(x, in_frozen, in_cop) for x in recipe)


# ---------------------------------------------------------------------------------------------------------
# (a) stored representations with mutated literals
# ---------------------------------------------------------------------------------------------------------
import ast  # noqa: E402

_INTS = (0, 1, -1, 2, 3, 5)
_FLOATS = (0.0, 0.5, -0.25, 1.0, 0.125)
_STRS = ("x", "k2", "a_b", "", "q")


def _const(value):
    if isinstance(value, (int, float)) and not isinstance(value, bool) and value < 0:
        return ast.UnaryOp(op=ast.USub(), operand=ast.Constant(value=-value))
    return ast.Constant(value=value)


_ROOTS = ("cirq", "cirq_google", "cirq_ionq", "cirq_aqt", "cirq_pasqal")
_SIG_CACHE = {}


def _signature_of(func_node):
    """inspect.signature of the Cirq callable a call node names, looked up in the tree under test (or None)."""
    import importlib
    import inspect
    names = []
    n = func_node
    while isinstance(n, ast.Attribute):
        names.append(n.attr)
        n = n.value
    if not isinstance(n, ast.Name) or n.id not in _ROOTS:
        return None
    dotted = ".".join([n.id] + names[::-1])
    if dotted not in _SIG_CACHE:
        sig = None
        try:
            obj = importlib.import_module(n.id)
            for a in names[::-1]:
                obj = getattr(obj, a)
            sig = inspect.signature(obj)
        except Exception:  # noqa: BLE001
            sig = None
        _SIG_CACHE[dotted] = sig
    return _SIG_CACHE[dotted]


def _annotation_of(func_node, arg) -> str:
    """The annotation (as text) of the parameter that positional index / keyword `arg` of a call to `func_node`
    binds to; '' when it cannot be told.  Used to keep None <-> value mutations inside what the signature
    documents (an `int | None` parameter), instead of feeding None to constructors that do not validate."""
    sig = _signature_of(func_node)
    if sig is None:
        return ""
    params = list(sig.parameters.values())
    p = None
    if isinstance(arg, int):
        pos = [q for q in params if q.kind in (q.POSITIONAL_ONLY, q.POSITIONAL_OR_KEYWORD)]
        if arg < len(pos):
            p = pos[arg]
    else:
        p = sig.parameters.get(arg)
    if p is None or p.annotation is p.empty:
        return ""
    return p.annotation if isinstance(p.annotation, str) else repr(p.annotation)


class _Sites(ast.NodeVisitor):
    """Collects (parent, field, index, node, kind, annotation) for every literal that can be mutated.
    Keyword-argument values and dict keys are ordinary children here, so they are hit like positional
    arguments.  `annotation` is known only for literals that are direct arguments of a Cirq callable."""

    # literals handed to these libraries' own constructors are left alone: what Cirq's JSON keeps of a
    # sympy.Float (an 'approx' double) or a datetime (a float timestamp) is a documented approximation, so
    # precision=1 or the year 5 would only show that
    FOREIGN = ("sympy", "datetime", "pd", "nx")

    def __init__(self):
        self.sites = []
        self.foreign = 0

    @staticmethod
    def _root(func):
        while isinstance(func, ast.Attribute):
            func = func.value
        return func.id if isinstance(func, ast.Name) else None

    def generic_visit(self, node):
        if isinstance(node, ast.Call):
            foreign = self._root(node.func) in self.FOREIGN
            self.foreign += foreign
            try:
                self._visit_call(node)
            finally:
                self.foreign -= foreign
            return
        for field, value in ast.iter_fields(node):
            if isinstance(value, list):
                for i, item in enumerate(value):
                    if isinstance(item, ast.AST):
                        self._consider(node, field, i, item, None)
            elif isinstance(value, ast.AST):
                self._consider(node, field, None, value, None)

    def _visit_call(self, node):
        if True:
            for i, a in enumerate(node.args):
                self._consider(node, "args", i, a, (node.func, i))
            for kw in node.keywords:
                if kw.arg == "dtype" and isinstance(kw.value, ast.Attribute) and isinstance(kw.value.value, ast.Name) \
                        and kw.value.value.id == "np":
                    self.sites.append((kw, "value", None, kw.value, "dtype", ""))
                self._consider(kw, "value", None, kw.value, (node.func, kw.arg) if kw.arg else None)
            if not self.foreign:
                # boolean options the stored example leaves at their default: a site that ADDS the keyword
                # with the other value (ConstantQubitNoiseModel(..., prepend=True))
                sig = _signature_of(node.func)
                if sig is not None:
                    params = list(sig.parameters.values())
                    positional = [q for q in params if q.kind in (q.POSITIONAL_ONLY, q.POSITIONAL_OR_KEYWORD)]
                    given = {q.name for q in positional[:len(node.args)]} | {kw.arg for kw in node.keywords}
                    if not any(isinstance(a, ast.Starred) for a in node.args):
                        for q in params:
                            if q.name not in given and isinstance(q.default, bool) \
                                    and q.kind in (q.POSITIONAL_OR_KEYWORD, q.KEYWORD_ONLY):
                                self.sites.append((node, "keywords", None, (q.name, not q.default), "addkw", ""))

    def _consider(self, parent, field, index, node, argctx):
        if isinstance(parent, ast.Attribute):
            self.generic_visit(node)
            return
        if self.foreign and not isinstance(node, ast.Call):
            if not isinstance(node, (ast.Constant, ast.UnaryOp)):
                self.generic_visit(node)      # there may be Cirq calls further down
            return
        ann = _annotation_of(*argctx) if argctx is not None else ""
        if isinstance(node, ast.UnaryOp) and isinstance(node.op, ast.USub) and isinstance(node.operand, ast.Constant) \
                and isinstance(node.operand.value, (int, float)) and not isinstance(node.operand.value, bool):
            self.sites.append((parent, field, index, node, "num", ann))
            return
        if isinstance(node, ast.Constant):
            v = node.value
            if isinstance(v, bool):
                self.sites.append((parent, field, index, node, "bool", ann))
            elif isinstance(v, (int, float)):
                self.sites.append((parent, field, index, node, "num", ann))
            elif isinstance(v, str):
                self.sites.append((parent, field, index, node, "str", ann))
            elif v is None and ann:
                self.sites.append((parent, field, index, node, "none", ann))
            return
        if isinstance(node, ast.Dict) and len(node.keys) >= 2 and all(k is not None for k in node.keys):
            self.sites.append((parent, field, index, node, "dict", ""))
        if isinstance(node, (ast.Tuple, ast.List)) and len(node.elts) >= 2 and all(
                isinstance(e, ast.Constant) and isinstance(e.value, (int, bool)) for e in node.elts):
            self.sites.append((parent, field, index, node, "seq", ann))
        self.generic_visit(node)


def _num_value(node):
    if isinstance(node, ast.UnaryOp):
        return -node.operand.value
    return node.value


_DTYPE_SWAP = {"int64": "float64", "int32": "int64", "float64": "complex128", "float32": "float64",
               "complex64": "complex128", "uint8": "int64", "bool_": "uint8", "int8": "int64"}


def mutate_repr(tape, text: str, focus=None, mode: str = "value"):
    """(mutated text, what was done) -- or (None, reason) when the text has nothing to mutate.  1-3 literals
    are changed: ints -> small ints incl. 0 and negatives, floats -> exact small floats, bools flipped,
    None <-> small value, strings -> another short string, sequences of ints reversed / rotated."""
    try:
        tree = ast.parse(text.strip(), mode="eval")
    except SyntaxError:
        return None, "unparsable"
    v = _Sites()
    v.visit(tree)
    if mode == "storage":
        # respellings that must give an EQUAL value: 1 -> 1.0, 0.0 -> -0.0, another array dtype, a dict literal
        # written in the opposite order
        sites = [x for x in v.sites if x[4] in ("dict", "dtype") or (x[4] == "num" and (
            isinstance(_num_value(x[3]), int) or _num_value(x[3]) == 0.0))]
    else:
        sites = [x for x in v.sites if x[4] not in ("dict", "dtype")]
    if not sites:
        return None, "no-literals"
    done = []
    used = set()
    # `focus` (value-sweep workload): literal number focus mod len(sites) is mutated for sure, so that the
    # 8-24 mutants of one sweep go through the literals of the stored example one after the other
    picks = [] if focus is None else [focus % len(sites)]
    extra = tape.weighted([5, 3, 2], "mutate.count") + (1 if focus is None else 0)
    for _ in range(extra):
        picks.append(tape.draw(len(sites), "mutate.site"))
    for k in picks:
        if k in used:
            continue
        used.add(k)
        parent, field, index, node, kind, ann = sites[k]
        none_ok = ("None" in ann or "Optional" in ann)
        if kind == "addkw":
            name, value = node
            parent.keywords.append(ast.keyword(arg=name, value=ast.Constant(value=value)))
            done.append(f"+{name}={value}")
            continue
        if kind == "dict":
            node.keys.reverse()
            node.values.reverse()
            done.append("dict-reversed")
            continue
        if kind == "dtype":
            new = _DTYPE_SWAP.get(node.attr)
            if new is None:
                continue
            node.attr = new
            done.append(f"dtype->{new}")
            continue
        if mode == "storage":
            old = _num_value(node)
            if isinstance(old, float):
                repl = ast.UnaryOp(op=ast.USub(), operand=ast.Constant(value=0.0))
                done.append("0.0->-0.0")
            else:
                repl = _const(float(old))
                done.append("int->float")
            if index is None:
                setattr(parent, field, repl)
            else:
                getattr(parent, field)[index] = repl
            continue
        if kind == "num":
            old = _num_value(node)
            to_none = none_ok and tape.chance(1, 4, "mutate.to-none")
            if to_none:
                new = None
            elif isinstance(old, float):
                new = tape.pick([x for x in _FLOATS if x != old], "mutate.float.value")
            else:
                new = tape.pick([x for x in _INTS if x != old], "mutate.int.value")
            repl = _const(new)
            done.append(f"{type(old).__name__}->{new!r}")
        elif kind == "bool":
            repl = ast.Constant(value=not node.value)
            done.append("bool-flip")
        elif kind == "str":
            to_none = none_ok and tape.chance(1, 4, "mutate.to-none")
            new = None if to_none else tape.pick([x for x in _STRS if x != node.value], "mutate.str.value")
            repl = ast.Constant(value=new)
            done.append("str->None" if new is None else "str")
        elif kind == "none":
            import re
            cands = []
            if re.search(r"\b(int|float)\b", ann):
                cands += [0, 1, 2]
            if re.search(r"\bstr\b", ann):
                cands += ["x", ""]
            if not cands:
                continue
            new = tape.pick(cands, "mutate.none.value")
            repl = ast.Constant(value=new)
            done.append(f"None->{new!r}")
        else:
            elts = list(node.elts)
            how = tape.draw(2, "mutate.seq")
            elts = elts[::-1] if how == 0 else elts[1:] + elts[:1]
            if [ast.dump(e) for e in elts] == [ast.dump(e) for e in node.elts]:
                continue
            repl = type(node)(elts=elts, ctx=ast.Load())
            done.append("seq-reorder")
        if index is None:
            setattr(parent, field, repl)
        else:
            getattr(parent, field)[index] = repl
    if not done:
        return None, "no-change"
    ast.fix_missing_locations(tree)
    return ast.unparse(tree), "+".join(done)


def _replace(recipe, old, new):
    """Deep copy of a recipe tree with every sub-tree equal to `old` replaced by `new`."""
    if recipe == old:
        return new
    if isinstance(recipe, list):
        return [_replace(x, old, new) for x in recipe]
    if isinstance(recipe, dict):
        return {k: _replace(v, old, new) for k, v in recipe.items()}
    return recipe


def storage_variant(tape, recipe):
    """(twin recipe, what) -- the same generated value spelled differently: integer parameters as floats, zeros
    as -0.0, matrices with another dtype.  None when the recipe has nothing to respell."""
    sites = []

    def walk(r, path):
        if isinstance(r, list):
            if r and r[0] == "i" and len(r) == 2 and isinstance(r[1], int):
                sites.append((path, "int"))
                return
            if r and r[0] == "f" and len(r) == 3 and r[1] == 0:
                sites.append((path, "zero"))
                return
            if r and r[0] == "matrix":
                sites.append((path, "matrix"))
            if r and r[0] in ("kraus", "mixedunitary"):
                sites.append((path, "resize"))
            for i, x in enumerate(r):
                walk(x, path + (i,))
        elif isinstance(r, dict):
            for k, x in r.items():
                walk(x, path + (k,))

    walk(recipe, ())
    if not sites:
        return None, "nothing"
    import copy as _copy
    twin = _copy.deepcopy(recipe)
    done = []
    resize = [x for x in sites if x[1] == "resize"]
    for n_done in range(1 + tape.draw(2, "twin.count")):
        if n_done == 0 and resize and tape.chance(1, 2, "twin.resize"):
            path, kind = resize[tape.draw(len(resize), "twin.resize.site")]
        else:
            path, kind = sites[tape.draw(len(sites), "twin.site")]
        try:
            node = twin
            for k in path[:-1]:
                node = node[k]
            last = path[-1] if path else None
            target = node[last] if path else twin
        except (IndexError, KeyError, TypeError):
            continue        # the place was inside a part an earlier respelling replaced
        if not isinstance(target, list) or not target:
            continue
        if kind == "int" and target[0] == "i":
            node[last] = ["f", target[1], 1]
            done.append("int->float")
        elif kind == "zero" and target[0] == "f":
            node[last] = ["nz"]
            done.append("-0.0")
        elif kind == "resize" and target[0] in ("kraus", "mixedunitary"):
            # a sibling of ANOTHER size: certainly not equal, but == must say so rather than raise
            eye4 = [[["i", int(i == j)] for j in range(4)] for i in range(4)]
            new = ["kraus", [eye4], target[2]] if target[0] == "kraus" else ["mixedunitary", [[["i", 1], eye4]], target[2]]
            if path:
                node[last] = new
            else:
                twin = new
            done.append("other-size")
        elif kind == "matrix" and target[0] == "matrix":
            opts = dict(target[4]) if len(target) > 4 else {}
            opts["dtype"] = tape.pick(("complex128", "float64", "complex64", "int64"), "twin.dtype")
            new = list(target[:4]) + [opts]
            if path:
                node[last] = new
            else:
                twin = new
            done.append("dtype")
    if twin == recipe or not done:
        return None, "no-change"
    return twin, "+".join(done)
