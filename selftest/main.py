"""./check selftest [--short] [--what determinism,sensitivity,schema] [--only C20,...]

determinism  every engine: the same seeds in fresh interpreters, at two worker counts and two
             PYTHONHASHSEED values of the harness process, must give identical per-run event-log digests
sensitivity  every /verif/selftest/mutants/*.patch is applied to a scratch copy of the five package
             directories (never to /repo); the named check must exit 1 with a replay file that reproduces
schema       every evidence file present validates against the required keys of EVIDENCE.schema.json
"""
from __future__ import annotations

import glob
import json
import os
import re
import shutil
import subprocess
import sys
import tempfile
import time

from simkit import repoenv

VERIF = repoenv.VERIF_DIR
CHECK = os.path.join(VERIF, "check")


def _available_checks():
    out = []
    for cid in ("C02", "C05", "C09", "C11", "C13", "C20"):
        if os.path.exists(os.path.join(VERIF, "checks", cid.lower() + ".py")):
            out.append(cid)
    return out


def _run(cmd, env=None, timeout=1800):
    e = dict(os.environ)
    e.pop("PYTHONHASHSEED", None)
    e.pop("VERIF_DIGESTS", None)
    if env:
        e.update(env)
    p = subprocess.run(cmd, cwd=VERIF, env=e, capture_output=True, text=True, timeout=timeout)
    return p.returncode, p.stdout + p.stderr


def determinism(checks, runs: int, seed: int) -> bool:
    ok = True
    tmp = tempfile.mkdtemp(prefix="verif-det-", dir=os.environ.get("TMPDIR") or "/dev/shm")
    try:
        for cid in checks:
            variants = [("j1-h0", 1, "0"), ("j14-h0", 14, "0"), ("j3-h12345", 3, "12345")]
            digs = {}
            for name, jobs, hs in variants:
                out = os.path.join(tmp, f"{cid}-{name}.json")
                rc, text = _run([CHECK, cid, "--runs", str(runs), "--jobs", str(jobs), "--no-evidence",
                                 "--wall", "3000"],
                                env={"VERIF_DIGESTS": out, "VERIF_HASHSEED": hs, "VERIF_SEED": str(seed)})
                if rc not in (0, 1) or not os.path.exists(out):
                    print(f"  determinism {cid} {name}: run failed rc={rc}\n{text[-2000:]}")
                    ok = False
                    continue
                digs[name] = json.load(open(out))
            names = list(digs)
            for other in names[1:]:
                a, b = digs[names[0]], digs[other]
                if a != b:
                    ok = False
                    diff = [(x, y) for x, y in zip(a, b) if x != y][:3]
                    print(f"  determinism {cid}: {names[0]} vs {other} DIFFER "
                          f"(len {len(a)} vs {len(b)}), first differences: {diff}")
            if len(digs) == len(variants) and ok:
                print(f"  determinism {cid}: {len(digs[names[0]])} runs x {len(variants)} configurations "
                      f"(worker counts 1/14/3, PYTHONHASHSEED 0/0/12345): identical event-log digests")
    finally:
        shutil.rmtree(tmp, ignore_errors=True)
    return ok


def _scratch_copy() -> str:
    base = os.environ.get("TMPDIR") or "/dev/shm"
    d = tempfile.mkdtemp(prefix="verif-scratch-", dir=base)
    root = repoenv.repo_root()
    for p in repoenv.PACKAGES:
        shutil.copytree(os.path.join(root, p), os.path.join(d, p),
                        ignore=shutil.ignore_patterns("__pycache__", "*.pyc", "*.ipynb", "docs"))
    return d


def parse_mutant(path):
    meta = {"property": None, "expect": None, "runs": None, "tier": "quick", "note": ""}
    for line in open(path):
        m = re.match(r"#\s*(property|expect|runs|tier|note):\s*(.*)", line)
        if m:
            meta[m.group(1)] = m.group(2).strip()
    return meta


def sensitivity(only, short: bool) -> bool:
    ok = True
    patches = sorted(glob.glob(os.path.join(VERIF, "selftest", "mutants", "*.patch")))
    # changes written by independent sub-agents (see DESIGN.md section 9): /verif/seeded/<name>/patch.diff + meta.json
    patches += sorted(glob.glob(os.path.join(VERIF, "seeded", "*", "patch.diff")))
    if only:
        patches = [p for p in patches if any(o in p[len(VERIF):] for o in only)]
    for p in patches:
        meta = parse_mutant(p)
        if p.endswith("patch.diff"):
            mj = json.load(open(os.path.join(os.path.dirname(p), "meta.json")))
            meta.update({"property": mj["property"], "expect": mj.get("expect", mj["property"] + "-"),
                         "tier": mj.get("tier", "quick"), "runs": mj.get("runs")})
            if mj.get("caught_by_check"):    # a change aimed at one property that another property's check decides
                meta.update({"property": mj["caught_by_check"], "expect": mj["caught_by_check"] + "-"})
        cid = meta["property"]
        harmless = (meta["expect"] == "NONE")
        documented_miss = None
        if p.endswith("patch.diff"):
            documented_miss = mj.get("documented_miss")     # a seeded change the checks do not catch, and why
        d = _scratch_copy()
        t0 = time.monotonic()
        try:
            r = subprocess.run(["patch", "-p1", "-s", "-d", d, "-i", p], capture_output=True, text=True)
            if r.returncode != 0:
                print(f"  mutant {p[len(VERIF) + 1:]}: patch does not apply: {r.stdout}{r.stderr}")
                ok = False
                continue
            cmd = [CHECK, cid, "--tier", meta["tier"], "--no-evidence"]
            if meta["runs"]:
                cmd += ["--runs", str(meta["runs"])]
            rc, text = _run(cmd, env={"VERIF_REPO": d})
            vio = re.findall(r"VIOLATION property=(\S+) replay=(\S+)", text)
            classes = re.findall(r"class=(\S+) seed=", text)
            if harmless:
                good = (rc == 0 and not vio)
                print(f"  mutant {os.path.basename(p)} [{cid}] (harmless variation, must NOT alarm): "
                      f"{'quiet' if good else 'ALARM rc=%d %s' % (rc, classes)} ({time.monotonic()-t0:.0f}s)")
                ok = ok and good
                continue
            good = (rc == 1 and bool(vio))
            if good and meta["expect"]:
                good = any(c.startswith(meta["expect"]) for c in classes)
            replay_ok = None
            if good:
                rc2, text2 = _run([CHECK, cid, "--replay", vio[0][1]], env={"VERIF_REPO": d})
                replay_ok = (rc2 == 1 and "same_class=True" in text2 and "same_digest=True" in text2)
                # and the same replay must be quiet on the unchanged tree
                rc3, _ = _run([CHECK, cid, "--replay", vio[0][1]])
                replay_ok = replay_ok and rc3 == 0
                good = good and replay_ok
            if documented_miss and not good and rc == 0:
                print(f"  mutant {p[len(VERIF) + 1:]} [{cid}]: rc=0 -> missed (documented: {documented_miss}) "
                      f"({time.monotonic()-t0:.0f}s)")
                continue
            print(f"  mutant {p[len(VERIF) + 1:]} [{cid}]: rc={rc} classes={classes} expected={meta['expect']} "
                  f"replay_reproduces={replay_ok} -> {'caught' if good else 'MISSED'} ({time.monotonic()-t0:.0f}s)")
            if not good:
                print("    " + "\n    ".join(text.strip().splitlines()[-6:]))
            ok = ok and good
        finally:
            shutil.rmtree(d, ignore_errors=True)
    return ok


def schema() -> bool:
    ok = True
    req = ["property_id", "tier", "seed", "level", "coverage", "wall_s"]
    for f in sorted(glob.glob(os.path.join(VERIF, "evidence", "*.json"))):
        d = json.load(open(f))
        miss = [k for k in req if k not in d]
        cov = d.get("coverage", {})
        miss += [k for k in ("evaluations", "distinct_nontrivial", "rule", "samples") if k not in cov]
        bad = bool(miss) or cov.get("evaluations", 0) < 1 or cov.get("distinct_nontrivial", 0) < 2 \
            or not cov.get("samples")
        print(f"  schema {os.path.basename(f)}: {'INVALID ' + str(miss) if bad else 'ok'}")
        ok = ok and not bad
    return ok


def run(args, seed: int) -> int:
    what = (args.what or ("determinism,schema" if args.short else "determinism,sensitivity,schema")).split(",")
    only = args.only.split(",") if args.only else None
    checks = [c for c in _available_checks() if not only or c in only] or _available_checks()
    import cirq
    repoenv.assert_working_tree(cirq)
    print(f"[selftest] repo={repoenv.repo_root()} checks={checks} what={what}")
    ok = True
    if "determinism" in what:
        ok = determinism(checks, 64 if args.short else (args.runs or 2000), seed) and ok
    if "sensitivity" in what:
        ok = sensitivity(only, args.short) and ok
    if "schema" in what:
        ok = schema() and ok
    print(f"[selftest] {'PASS' if ok else 'FAIL'}")
    return 0 if ok else 2
