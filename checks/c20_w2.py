"""C20 workload W2: sampler fan-out under the simulated duet scheduler.

(a) cirq.Sampler.run_batch / run_batch_async over a fake sampler whose run_sweep_async completes when
    the simulator says so;
(b) cirq_google.ProcessorSampler (incl. jobs_per_batch > 1 re-splitting and its duet.Limiter) over a
    fake processor whose jobs complete in tape order.

Oracle: result [i][j] belongs to program i, sweep point j, whatever the completion order; at most
max_concurrent_jobs processor jobs in flight; an injected job failure surfaces (once) and no result
list is returned; the call returns once every job completed (no hang).
"""
from __future__ import annotations

import numpy as np
import sympy

import cirq
import duet

from engines import simduet
from engines.sim import Sim, SimHang
from simkit.core import Ctx, StepCapExceeded, Violation

P = "C20"


class InjectedJobError(Exception):
    pass


def _payload(i: int, j: int, reps: int) -> np.ndarray:
    bits = [(i >> k) & 1 for k in range(5)] + [(j >> k) & 1 for k in range(4)]
    return np.array([bits] * reps, dtype=np.int8).reshape(reps, 9)


def _prog_index(circuit) -> int:
    keys = sorted(cirq.measurement_key_names(circuit))
    assert len(keys) == 1 and keys[0].startswith("p"), keys
    return int(keys[0][1:])


class _World:
    def __init__(self, sim, ctx):
        self.sim, self.ctx = sim, ctx
        self.pending = {}        # job id -> (future, outcome)
        self.inflight = 0
        self.max_inflight = 0
        self.errors_fired = []
        self.failure = None
        self.completion_order = []
        self.start_order = []

    def enabled(self):
        return [(f"complete:{j}", (lambda jj=j: self._complete(jj))) for j in self.pending]

    def _complete(self, j):
        fut, outcome = self.pending.pop(j)
        self.completion_order.append(j)
        if isinstance(outcome, Exception):
            self.errors_fired.append(outcome)
            self.ctx.fault("job-error")
            fut.try_set_exception(outcome)
        else:
            fut.try_set_result(None)

    def fail(self, cls, msg):
        if self.failure is None:
            self.failure = Violation(cls, msg)


def run_expectation_values(tape, ctx: Ctx) -> None:
    """Sampler.sample_expectation_values fans a list of observables and a sweep out into measurement jobs and
    routes the measured means back: entry [i][j] of the result belongs to sweep point i and observable j,
    also when two observables (or two sweep points) are equal or share a term.  The circuit prepares a
    computational basis state chosen by the sweep, so every expectation value is exactly +-1 or a sum of such."""
    ctx.workload = "W2-expectation-values"
    n = 1 + tape.draw(3, "n-qubits")
    qs = cirq.LineQubit.range(n)
    syms = [sympy.Symbol(f"a{i}") for i in range(n)]
    circuit = cirq.Circuit((cirq.X(q) ** s) for q, s in zip(qs, syms))
    n_points = 1 + tape.draw(3, "n-points")
    points = [tuple(tape.draw(2, "bit") for _ in range(n)) for _ in range(n_points)]
    if n_points >= 2 and tape.chance(1, 2, "equal-points?"):
        points[-1] = points[0]
        ctx.probe("w2:equal-sweep-points")
    sweep = cirq.ListSweep([cirq.ParamResolver({f"a{i}": b for i, b in enumerate(p)}) for p in points])
    n_obs = 1 + tape.draw(3, "n-observables")
    obs = []
    for _ in range(n_obs):
        terms = []
        for _t in range(1 + tape.draw(2, "n-terms")):
            sub = tuple([q for q in qs if tape.chance(1, 2, "in-term?")] or [qs[0]])
            if any(sub == s2 for _c, s2 in terms):
                continue          # one Pauli string once per observable (coefficients could cancel to nothing)
            terms.append(([1, 2, -1][tape.draw(3, "coeff")], sub))
        obs.append(terms)
    if n_obs >= 2 and tape.chance(1, 2, "equal-observables?"):
        obs[-1] = list(obs[0])
        ctx.probe("w2:equal-observables")

    def pauli_sum(terms):
        total = 0
        for c, sub in terms:
            total = total + c * cirq.PauliString({q: cirq.Z for q in sub})
        return total

    def exact(terms, p):
        val = 0.0
        merged = {}
        for c, sub in terms:
            merged[sub] = merged.get(sub, 0) + c       # equal Pauli strings inside one sum combine
        for sub, c in merged.items():
            val += c * (-1) ** sum(p[qs.index(q)] for q in sub)
        return val

    ctx.decide("cfg", "expectation-values", n, points, [[(c, [q.x for q in sub]) for c, sub in t] for t in obs])
    sampler = cirq.Simulator(seed=0)
    got = sampler.sample_expectation_values(circuit, [pauli_sum(t) for t in obs], num_samples=4, params=sweep)
    for i, p in enumerate(points):
        for j, t in enumerate(obs):
            want = exact(t, p)
            if abs(got[i][j] - want) > 1e-9:
                raise Violation(f"{P}-WRONG-RESULT",
                                f"sample_expectation_values: entry [{i}][{j}] (sweep point {p}, observable "
                                f"{pauli_sum(t)}) is {got[i][j]}, the state is a basis state and the value is {want}; "
                                f"whole result {got}, points {points}",
                                fingerprint=f"{P}-WRONG-RESULT:sample_expectation_values-routes-by-value")
    ctx.nontrivial = n_points * n_obs >= 2
    ctx.state(("w2-ev", n, n_points, n_obs))
    ctx.sample = {"workload": "W2", "variant": "Sampler.sample_expectation_values", "points": points,
                  "observables": [str(pauli_sum(t)) for t in obs]}


def run(tape, ctx: Ctx) -> None:
    if tape.chance(1, 8, "expectation-values?"):
        return run_expectation_values(tape, ctx)
    ctx.workload = "W2-fanout"
    variant = tape.weighted([2, 3], "variant")          # 0 base Sampler, 1 ProcessorSampler
    n_prog = 1 + tape.draw(7, "n-programs")
    sweep_lens = []
    same_sweep = tape.chance(1, 2, "same-sweep?")
    base_len = 1 + tape.draw(3, "sweep-len")
    for i in range(n_prog):
        sweep_lens.append(base_len if same_sweep else 1 + tape.draw(3, "sweep-len"))
    same_reps = tape.chance(2, 3, "same-reps?")
    reps_list = [2 if same_reps else 1 + tape.draw(3, "reps") for _ in range(n_prog)]
    fault = tape.weighted([5, 2], "fault")
    # a history of calls on one sampler instance: what an earlier call (and its failures) leaves behind in
    # the sampler -- limiter slots, queues -- is what the next call starts from
    n_rounds = 1 + tape.weighted([4, 2, 1], "extra-calls")
    fault_round = tape.draw(n_rounds, "fault-round") if fault and n_rounds > 1 else 0
    sim = Sim(tape, ctx, max_steps=(60 * n_prog + 200) * n_rounds)
    w = _World(sim, ctx)
    sim.add_source(w)
    q = cirq.LineQubit(0)
    t = sympy.Symbol("t")
    programs = [cirq.Circuit(cirq.X(q) ** t, cirq.measure(q, key=f"p{i}")) for i in range(n_prog)]
    sweeps = [cirq.Points("t", [0.25 * j for j in range(sweep_lens[i])]) for i in range(n_prog)]
    if same_sweep:
        sweeps = [sweeps[0]] * n_prog
    job_counter = [0]
    error_job_box = [None]     # id of the job that fails, for the current call
    error_offset = 0

    def results_for(prog_idxs, sweep, reps):
        out = []
        for i in prog_idxs:
            for j, resolver in enumerate(cirq.to_resolvers(sweep)):
                out.append(cirq.ResultDict(params=resolver, measurements={f"p{i}": _payload(i, j, reps)}))
        return out

    if variant == 0:
        class FakeSampler(cirq.Sampler):
            async def run_sweep_async(self, program, params, repetitions=1):
                jid = job_counter[0]
                job_counter[0] += 1
                i = _prog_index(program)
                w.start_order.append(i)
                w.inflight += 1
                w.max_inflight = max(w.max_inflight, w.inflight)
                fut = duet.AwaitableFuture()
                w.pending[jid] = (fut, InjectedJobError(f"job {jid}") if jid == error_job_box[0] else None)
                try:
                    await fut
                finally:
                    w.inflight -= 1
                return results_for([i], params, repetitions)

        sampler = FakeSampler()
        limit = None
        if fault:
            error_offset = tape.draw(n_prog, "error-job")
            ctx.fault_configured("job-error")
        call = lambda: sampler.run_batch(programs, params_list=sweeps, repetitions=reps_list)  # noqa: E731
        ctx.decide("cfg", "base", n_prog, sweep_lens, reps_list, error_offset, n_rounds, fault_round)
    else:
        import cirq_google as cg

        max_conc = 1 + tape.draw(4, "max-concurrent")
        jobs_per_batch = 1 + tape.weighted([3, 2, 2, 1], "jobs-per-batch")

        class FakeJob:
            def __init__(self, jid, prog_idxs, sweep, reps):
                self.jid, self.prog_idxs, self.sweep, self.reps = jid, prog_idxs, sweep, reps

            async def results_async(self):
                fut = duet.AwaitableFuture()
                w.pending[self.jid] = (fut, InjectedJobError(f"job {self.jid}") if self.jid == error_job_box[0] else None)
                try:
                    await fut
                finally:
                    w.inflight -= 1
                return results_for(self.prog_idxs, self.sweep, self.reps)

        class FakeProcessor:
            async def run_sweep_async(self, program, params, repetitions, run_name="", snapshot_id="",
                                      device_config_name=""):
                jid = job_counter[0]
                job_counter[0] += 1
                progs = list(program.values()) if isinstance(program, dict) else (
                    list(program) if isinstance(program, (list, tuple)) else [program])
                idxs = [_prog_index(p) for p in progs]
                w.start_order.append(tuple(idxs))
                if len(idxs) > 1:
                    ctx.probe("w2:batched-job")
                w.inflight += 1
                w.max_inflight = max(w.max_inflight, w.inflight)
                if w.inflight > max_conc:
                    w.fail(f"{P}-CONCURRENCY", f"{w.inflight} processor jobs in flight with max_concurrent_jobs={max_conc}")
                if tape.chance(1, 3, "create-yields?"):
                    await duet.sleep(1)
                return FakeJob(jid, idxs, params, repetitions)

        sampler = cg.ProcessorSampler(processor=FakeProcessor(), max_concurrent_jobs=max_conc,
                                      jobs_per_batch=jobs_per_batch)
        limit = max_conc
        if fault:
            error_offset = tape.draw(n_prog, "error-job")    # may exceed the number of jobs when batching: then no fault fires
            ctx.fault_configured("job-error")
        as_mapping = jobs_per_batch > 1 and tape.chance(1, 3, "mapping?")
        progs_arg = {f"name{i}": p for i, p in enumerate(programs)} if as_mapping else programs
        call = lambda: sampler.run_batch(progs_arg, params_list=sweeps, repetitions=reps_list)  # noqa: E731
        ctx.decide("cfg", "processor", n_prog, sweep_lens, reps_list, max_conc, jobs_per_batch, error_offset, as_mapping,
                   n_rounds, fault_round)

    def on_quiescent():
        if w.failure is not None:
            raise w.failure

    sim.on_quiescent = on_quiescent
    any_raised = False
    for rnd in range(n_rounds):
        if rnd:
            ctx.probe("w2:repeated-call-on-one-sampler")
            if any_raised:
                ctx.probe("w2:call-after-failed-call")
        # job ids are global; the injected failure belongs to one round
        base_job = job_counter[0]
        error_job = (base_job + error_offset) if (fault and rnd == fault_round) else None
        error_job_box[0] = error_job
        w.pending.clear()
        w.inflight = 0
        w.errors_fired = []
        raised = _one_call(sim, w, ctx, call, n_prog, sweep_lens, reps_list, rnd)
        any_raised = any_raised or raised is not None
    if w.completion_order != sorted(w.completion_order):
        ctx.probe("w2:out-of-order-completion")
    if limit is not None and w.max_inflight == limit and job_counter[0] > limit:
        ctx.probe("w2:limiter-saturated")
    ctx.state(("w2", variant, min(w.max_inflight, 5), any_raised, n_rounds))
    ctx.nontrivial = job_counter[0] >= 2
    ctx.sample = {"workload": "W2", "variant": "ProcessorSampler" if variant else "Sampler.run_batch",
                  "programs": n_prog, "sweep_lens": sweep_lens, "repetitions": reps_list, "calls": n_rounds,
                  "jobs_started": [list(x) if isinstance(x, tuple) else x for x in w.start_order],
                  "completion_order": w.completion_order, "raised": any_raised}


def _one_call(sim, w, ctx, call, n_prog, sweep_lens, reps_list, rnd):
    raised = None
    result = None
    with simduet.installed(sim):
        try:
            result = call()
        except Violation:
            raise
        except SimHang as e:
            raise Violation(f"{P}-HANG", f"run_batch (call {rnd + 1} on this sampler) never returns: {e}; "
                                         f"started={w.start_order} completed={w.completion_order}")
        except StepCapExceeded as e:
            raise Violation(f"{P}-HANG", f"run_batch did not finish within {sim.max_steps} events ({e})")
        except InjectedJobError as e:
            raised = e
    if w.failure is not None:
        raise w.failure
    if any(s.active_tasks for s in sim.schedulers):
        raise Violation(f"{P}-UNCLEAN-STOP", "tasks survive in the scheduler after run_batch returned")
    if raised is not None:
        if not any(raised is e for e in w.errors_fired):
            raise Violation(f"{P}-ERROR-SWALLOWED", f"run_batch raised {raised!r}, which was never delivered")
    else:
        if w.errors_fired:
            raise Violation(f"{P}-ERROR-SWALLOWED", f"job error {w.errors_fired} was delivered but run_batch "
                                                    f"returned a result list")
        if w.pending:
            raise Violation(f"{P}-UNCLEAN-STOP", f"run_batch returned with jobs {sorted(w.pending)} in flight")
        if len(result) != n_prog:
            raise Violation(f"{P}-BATCH-ORDER", f"{len(result)} result lists for {n_prog} programs")
        for i in range(n_prog):
            if len(result[i]) != sweep_lens[i]:
                raise Violation(f"{P}-BATCH-ORDER", f"program {i}: {len(result[i])} results for {sweep_lens[i]} sweep "
                                                    f"points")
            for j in range(sweep_lens[i]):
                r = result[i][j]
                key = f"p{i}"
                ok = (set(r.measurements) == {key} and r.measurements[key].shape == (reps_list[i], 9)
                      and np.array_equal(r.measurements[key], _payload(i, j, reps_list[i]))
                      and abs(float(r.params.value_of("t")) - 0.25 * j) < 1e-12)
                if not ok:
                    raise Violation(f"{P}-BATCH-ORDER",
                                    f"result[{i}][{j}] is not the result of program {i}, sweep point {j}: keys "
                                    f"{sorted(r.measurements)} params {r.params} (completion order "
                                    f"{w.completion_order})")
    return raised
