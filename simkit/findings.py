"""known_findings.json: genuine defects recorded rather than repaired.

The file is committed and never written at run time.  An entry suppresses only
violations whose fingerprint equals its own; any other violation of the same
property is still reported.  `fixed` entries suppress nothing.
"""
from __future__ import annotations

import json
import os
from collections import Counter
from typing import List

from simkit import repoenv

PATH = os.path.join(repoenv.VERIF_DIR, "known_findings.json")


class Findings:
    def __init__(self, findings: list, fixed: list):
        self.findings = findings
        self.fixed = fixed

    @classmethod
    def load(cls) -> "Findings":
        if not os.path.exists(PATH):
            return cls([], [])
        with open(PATH) as f:
            doc = json.load(f)
        return cls(doc.get("findings", []), doc.get("fixed", []))

    def is_known(self, prop: str, v) -> bool:
        return any(e["property"] == prop and e["fingerprint"] == v.fingerprint for e in self.findings)

    def report_lines(self, prop: str, hits: Counter, only_hit: bool = False) -> List[str]:
        lines = []
        for e in self.findings:
            if e["property"] != prop:
                continue
            n = hits.get(e["fingerprint"], 0)
            if only_hit and not n:
                continue
            reach = f"reproduced in {n} run(s)" if n else "not reached in this run"
            lines.append(f"KNOWN-FINDING: property={prop} {e['what_fails']} [{e['fingerprint']}; {reach}]")
        return lines
