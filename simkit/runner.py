"""Batch runner: shard run indices over forked workers, collect coverage, handle
violations (known-finding filter, minimise, replay file), write evidence."""
from __future__ import annotations

import faulthandler
import json
import os
import signal
import sys
import time
import traceback
from collections import Counter
from concurrent.futures import ProcessPoolExecutor, as_completed
from concurrent.futures.process import BrokenProcessPool
import multiprocessing as mp
from typing import Any, Dict, List, Optional, Tuple

from simkit import repoenv
from simkit.core import Check, Ctx, HarnessError, Violation
from simkit.findings import Findings
from simkit.shrink import shrink
from simkit.tape import Tape, derive_seed

EXIT_OK, EXIT_VIOLATION, EXIT_HARNESS = 0, 1, 2
MAX_DIGESTS_PER_WORKER = 2_000_000


class _RunTimeout(BaseException):
    pass


def _alarm(signum, frame):
    raise _RunTimeout()


def execute(check: Check, tape: Tape, keep_log: bool = False) -> Tuple[Ctx, Optional[Violation], Optional[str]]:
    """One simulated run.  Returns (ctx, violation, harness_error_text)."""
    ctx = Ctx(keep_log=keep_log)
    try:
        check.run_one(tape, ctx)
        return ctx, None, None
    except Violation as v:
        return ctx, v, None
    except _RunTimeout:
        raise
    except HarnessError as e:
        return ctx, None, "".join(traceback.format_exception(type(e), e, e.__traceback__))
    except Exception as e:  # noqa: BLE001 - classification is the point
        v = check.classify_exception(e)
        tb = "".join(traceback.format_exception(type(e), e, e.__traceback__))
        if v is not None:
            v.traceback_text = tb
            return ctx, v, None
        return ctx, None, tb


def _minimise(check: Check, values: List[int], cls: str, budget_replays: int, budget_s: float,
              findings=None) -> List[int]:
    def fails(cand):
        t = Tape(values=cand)
        try:
            _, v, herr = execute(check, t)
        except _RunTimeout:
            return None
        # same violation class, and never a recorded known finding: shrinking a new violation must not
        # slide into a neighbouring input that fails for an already recorded reason
        if v is not None and v.cls == cls and not (findings is not None and findings.is_known(check.property_id, v)):
            return t.record
        return None

    return shrink(values, fails, max_replays=budget_replays, max_seconds=budget_s)


_WANT_DIGESTS = bool(os.environ.get("VERIF_DIGESTS"))
_CURRENT_CHECK: Optional[Check] = None   # inherited by forked workers (a check holds modules: not picklable)


def _worker(args) -> Dict[str, Any]:
    (base_seed, start, stride, n_runs, wall_deadline, findings, shrink_budget) = args
    check = _CURRENT_CHECK
    faulthandler.enable()
    signal.signal(signal.SIGALRM, _alarm)
    out = {
        "evaluations": 0, "nontrivial": 0, "digests": set(), "faults_configured": Counter(),
        "faults_fired": Counter(), "probes": Counter(), "states": set(), "sim_time": 0.0,
        "steps": 0, "samples": [], "violations": [], "known": Counter(), "harness_errors": [],
        "workloads": Counter(), "first_index": None, "last_index": None, "stopped_by_wall": False,
    }
    seen_classes = set()
    i = start
    while i < n_runs:
        if time.monotonic() > wall_deadline:
            out["stopped_by_wall"] = True
            break
        seed = derive_seed(base_seed, check.property_id, i)
        tape = Tape(seed=seed)
        faulthandler.dump_traceback_later(check.per_run_timeout + 30, exit=True)
        signal.alarm(check.per_run_timeout)
        try:
            ctx, v, herr = execute(check, tape)
        except _RunTimeout:
            signal.alarm(0)
            out["harness_errors"].append(
                {"index": i, "seed": seed, "text": f"run exceeded {check.per_run_timeout}s wall-clock\n"
                 + "".join(traceback.format_stack())})
            break
        finally:
            signal.alarm(0)
            faulthandler.cancel_dump_traceback_later()
        out["evaluations"] += 1
        if _WANT_DIGESTS:
            out.setdefault("run_digests", []).append((i, ctx.log_digest(), v.cls if v is not None else None))
        if out["first_index"] is None:
            out["first_index"] = i
        out["last_index"] = i
        out["faults_configured"].update(ctx.faults_configured)
        out["faults_fired"].update(ctx.faults_fired)
        out["probes"].update(ctx.probes)
        out["sim_time"] += ctx.sim_time
        out["steps"] += ctx.steps
        if ctx.workload:
            out["workloads"][ctx.workload] += 1
        if len(out["states"]) < MAX_DIGESTS_PER_WORKER:
            out["states"].update(ctx.states)
        if ctx.nontrivial:
            out["nontrivial"] += 1
            if len(out["digests"]) < MAX_DIGESTS_PER_WORKER:
                out["digests"].add(ctx.digest())
            if len(out["samples"]) < 3 and ctx.sample is not None:
                out["samples"].append({"index": i, "seed": seed, "run": ctx.sample})
        if herr is not None:
            out["harness_errors"].append({"index": i, "seed": seed, "text": herr})
            if len(out["harness_errors"]) >= 3:
                break
        if v is not None:
            if findings.is_known(check.property_id, v):
                out["known"][v.fingerprint] += 1
            else:
                rec = {"index": i, "seed": seed, "cls": v.cls, "fingerprint": v.fingerprint,
                       "message": v.message, "tape": list(tape.record),
                       "traceback": getattr(v, "traceback_text", None), "minimised": False}
                if v.cls not in seen_classes and len(seen_classes) < 4:
                    seen_classes.add(v.cls)
                    signal.alarm(0)
                    try:
                        rec["tape"] = _minimise(check, list(tape.record), v.cls,
                                                shrink_budget[0], shrink_budget[1], findings)
                        rec["minimised"] = True
                    except Exception as e:  # noqa: BLE001
                        rec["minimise_error"] = repr(e)
                    out["violations"].append(rec)
                elif len(out["violations"]) < 40:
                    out["violations"].append(rec)
                else:
                    out.setdefault("violations_dropped", 0)
                    out["violations_dropped"] += 1
        i += stride
    return out


def write_replay(check: Check, rec: Dict[str, Any], base_seed: int) -> str:
    """Re-run the (minimised) tape with logging on and write the replay file."""
    os.makedirs(os.path.join(repoenv.VERIF_DIR, "replays"), exist_ok=True)
    tape = Tape(values=rec["tape"], keep_labels=True)
    ctx, v, herr = execute(check, tape, keep_log=True)
    doc = {
        "property": check.property_id,
        "engine": check.engine,
        "violation_class": rec["cls"],
        "fingerprint": rec["fingerprint"],
        "message": (v.message if v is not None else rec["message"]),
        "original_message": rec["message"],
        "base_seed": base_seed,
        "run_index": rec["index"],
        "seed": rec["seed"],
        "minimised": rec["minimised"],
        "tape": list(tape.record) if v is not None and v.cls == rec["cls"] else rec["tape"],
        "labels": tape.labels,
        "workload": ctx.workload,
        "event_log": [repr(e) for e in ctx.log[-400:]],
        "log_digest": ctx.log_digest(),
        "traceback": getattr(v, "traceback_text", None) if v is not None else rec.get("traceback"),
        "repo_rev": repoenv.repo_rev(),
        "replay_cmd": f"./check {check.property_id} --replay <this file>",
    }
    path = os.path.join(repoenv.VERIF_DIR, "replays",
                        f"{check.property_id}-{rec['seed']:016x}-{rec['cls']}.json")
    with open(path, "w") as f:
        json.dump(doc, f, indent=1, default=repr)
    return path


def run_batch(check: Check, tier: str, base_seed: int, jobs: int,
              runs_override: Optional[int] = None, wall_override: Optional[float] = None,
              write_evidence: bool = True) -> int:
    t0 = time.monotonic()
    cfg = dict(check.tiers[tier])
    if runs_override is not None:
        cfg["runs"] = runs_override
    if wall_override is not None:
        cfg["wall"] = wall_override
    n_runs = int(cfg["runs"])
    wall = float(cfg["wall"])
    findings = Findings.load()
    print(f"[{check.property_id}] tier={tier} VERIF_SEED={base_seed} runs<={n_runs} wall<={wall:.0f}s "
          f"jobs={jobs} repo={repoenv.repo_root()} rev={repoenv.repo_rev()} "
          f"PYTHONHASHSEED={os.environ.get('PYTHONHASHSEED')}", flush=True)
    check.setup()
    deadline = time.monotonic() + wall
    shrink_budget = (400, 60.0) if tier == "thorough" else (250, 30.0)
    jobs = max(1, min(jobs, n_runs))
    results: List[Dict[str, Any]] = []
    harness_texts: List[str] = []
    global _CURRENT_CHECK
    _CURRENT_CHECK = check
    if jobs == 1:
        results.append(_worker((base_seed, 0, 1, n_runs, deadline, findings, shrink_budget)))
    else:
        ctx_mp = mp.get_context("fork")
        try:
            with ProcessPoolExecutor(max_workers=jobs, mp_context=ctx_mp) as pool:
                futs = [pool.submit(_worker, (base_seed, w, jobs, n_runs, deadline, findings,
                                              shrink_budget)) for w in range(jobs)]
                for f in as_completed(futs, timeout=wall + check.per_run_timeout + 300):
                    results.append(f.result())
        except BrokenProcessPool as e:
            harness_texts.append(f"worker process died: {e!r}")
        except TimeoutError as e:
            harness_texts.append(f"workers did not finish in time: {e!r}")

    agg = {"evaluations": 0, "nontrivial": 0, "digests": set(), "faults_configured": Counter(),
           "faults_fired": Counter(), "probes": Counter(), "states": set(), "sim_time": 0.0,
           "steps": 0, "samples": [], "violations": [], "known": Counter(), "workloads": Counter()}
    stopped_by_wall = False
    for r in results:
        agg["evaluations"] += r["evaluations"]
        agg["nontrivial"] += r["nontrivial"]
        agg["digests"] |= r["digests"]
        agg["states"] |= r["states"]
        for k in ("faults_configured", "faults_fired", "probes", "known", "workloads"):
            agg[k].update(r[k])
        agg["sim_time"] += r["sim_time"]
        agg["steps"] += r["steps"]
        agg["samples"].extend(r["samples"])
        agg["violations"].extend(r["violations"])
        stopped_by_wall = stopped_by_wall or r["stopped_by_wall"]
        for h in r["harness_errors"]:
            harness_texts.append(f"run index {h['index']} seed {h['seed']}:\n{h['text']}")
    if _WANT_DIGESTS:
        rd = sorted(x for r in results for x in r.get("run_digests", []))
        with open(os.environ["VERIF_DIGESTS"], "w") as f:
            json.dump(rd, f)
    agg["samples"].sort(key=lambda s: s["index"])
    agg["violations"].sort(key=lambda v: (v["index"]))

    # ---- violations ---------------------------------------------------------------------
    exit_code = EXIT_OK
    reported = {}
    for rec in agg["violations"]:
        if rec["cls"] in reported:
            continue
        if not rec["minimised"]:
            # another worker may have minimised the same class; prefer that one
            better = [r for r in agg["violations"] if r["cls"] == rec["cls"] and r["minimised"]]
            if better:
                rec = better[0]
        path = write_replay(check, rec, base_seed)
        reported[rec["cls"]] = path
        print(f"VIOLATION property={check.property_id} replay={path}")
        print(f"  class={rec['cls']} seed={rec['seed']} index={rec['index']} tape_len={len(rec['tape'])}")
        print(f"  {rec['message'][:600]}")
        exit_code = EXIT_VIOLATION
    for line in findings.report_lines(check.property_id, agg["known"]):
        print(line)

    wall_s = time.monotonic() - t0
    # ---- probes at zero -------------------------------------------------------------------
    for p in check.expected_probes:
        if agg["probes"].get(p, 0) == 0:
            print(f"  warning: probe '{p}' was never reached in this run")

    if harness_texts:
        exit_code = EXIT_HARNESS if exit_code == EXIT_OK else exit_code
        for t in harness_texts[:5]:
            print("HARNESS-ERROR " + t, file=sys.stderr)
        print(f"HARNESS-ERROR property={check.property_id} ({len(harness_texts)} error(s)); "
              f"this is a defect of /verif, not a verdict on the property", flush=True)
    if agg["evaluations"] == 0 and exit_code == EXIT_OK:
        print("HARNESS-ERROR no run was executed")
        exit_code = EXIT_HARNESS

    if write_evidence:
        from simkit.evidence import write_evidence as _we
        _we(check, tier, base_seed, agg, wall_s, n_runs, jobs, stopped_by_wall,
            len(reported), harness_errors=len(harness_texts))
    rate = agg["evaluations"] / wall_s * 3600 if wall_s > 0 else 0
    print(f"[{check.property_id}] runs={agg['evaluations']} nontrivial={agg['nontrivial']} "
          f"distinct={len(agg['digests'])} states={len(agg['states'])} faults_fired={sum(agg['faults_fired'].values())} "
          f"sim_time={agg['sim_time']:.0f}s wall={wall_s:.1f}s ({rate:,.0f} runs/h) "
          f"violations={len(reported)} known={sum(agg['known'].values())} exit={exit_code}", flush=True)
    return exit_code


def replay_file(check: Check, path: str) -> int:
    with open(path) as f:
        doc = json.load(f)
    check.setup()
    findings = Findings.load()
    tape = Tape(values=doc["tape"], keep_labels=True)
    signal.signal(signal.SIGALRM, _alarm)
    signal.alarm(check.per_run_timeout)
    ctx, v, herr = execute(check, tape, keep_log=True)
    signal.alarm(0)
    if herr:
        print("HARNESS-ERROR during replay:\n" + herr, file=sys.stderr)
        return EXIT_HARNESS
    if v is None:
        print(f"[{check.property_id}] replay of {path}: no violation (does not reproduce on this tree)")
        return EXIT_OK
    same = (v.cls == doc.get("violation_class"))
    dig = ctx.log_digest()
    print(f"[{check.property_id}] replay: class={v.cls} same_class={same} log_digest={dig} "
          f"recorded_digest={doc.get('log_digest')} same_digest={dig == doc.get('log_digest')}")
    print(f"  {v.message[:800]}")
    if os.environ.get("VERIF_REPLAY_VERBOSE"):
        for e in ctx.log[-200:]:
            print("   ", e)
    if findings.is_known(check.property_id, v):
        for line in findings.report_lines(check.property_id, Counter({v.fingerprint: 1}), only_hit=True):
            print(line)
        return EXIT_OK
    print(f"VIOLATION property={check.property_id} replay={path}")
    return EXIT_VIOLATION
