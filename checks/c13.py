"""C13 (first sentence) -- the stabilizer representations track the true state."""
from __future__ import annotations

import math

import numpy as np

from simkit.core import Check, Ctx, HarnessError, Violation

P = "C13"

_PAULI = {"I": np.eye(2, dtype=complex), "X": np.array([[0, 1], [1, 0]], dtype=complex),
          "Y": np.array([[0, -1j], [1j, 0]]), "Z": np.array([[1, 0], [0, -1]], dtype=complex)}


def _dense_pauli_matrix(dps) -> np.ndarray:
    """Matrix of a cirq.DensePauliString from its mask and coefficient (independent of cirq.unitary)."""
    m = np.array([[complex(dps.coefficient)]])
    for k in dps.pauli_mask:
        m = np.kron(m, _PAULI["IXYZ"[int(k)]])
    return m


def _apply_dense_pauli(dps, psi: np.ndarray) -> np.ndarray:
    """dps |psi> by acting qubit by qubit on the tensor (no 2^n x 2^n matrix)."""
    mask = [int(k) for k in dps.pauli_mask]
    n = len(mask)
    t = psi.reshape((2,) * n)
    phase = complex(dps.coefficient)
    for ax, k in enumerate(mask):
        if k == 0:
            continue
        if k in (1, 2):                      # X or Y: flip the axis
            t = np.flip(t, axis=ax)
        if k in (2, 3):                      # Y or Z: sign on |1>
            sign = np.array([1.0, -1.0]).reshape([2 if a == ax else 1 for a in range(n)])
            if k == 2:
                # Y = i X Z : apply Z first (on the unflipped index) -> after the flip the sign sits on |0>
                sign = np.array([-1.0, 1.0]).reshape([2 if a == ax else 1 for a in range(n)])
                phase *= 1j
            t = t * sign
    return (phase * t).reshape(-1)


def _paulis_commute(a, b) -> bool:
    ma = [int(k) for k in a.pauli_mask]
    mb = [int(k) for k in b.pauli_mask]
    return sum(1 for x, y in zip(ma, mb) if x and y and x != y) % 2 == 0


class C13(Check):
    property_id = "C13"
    engine = "E4 scripted PRNG + branch-tree exploration + QRef reference interpreter"
    technique = ("deterministic simulation of the stabilizer simulators' coin flips: a scripted PRNG decides every "
                 "measurement coin, all coin sequences are enumerated, and after every operation the CH-form "
                 "amplitudes (incl. global phase) and the tableau's stabilizers are compared with a dense reference")
    rule = ("one run = one tape-drawn Clifford circuit (<= 6 qubits, <= 20 operations, measurements, classically "
            "controlled Paulis, optional Pauli mixtures) x one system under test (CliffordSimulator simulate / "
            "moment steps / run, StabilizerSampler, act_on a tableau state or a CH-form state directly); every coin "
            "sequence is enumerated; non-trivial = at least one measurement with a random outcome (>= 2 leaves) or "
            ">= 4 Clifford operations checked step by step; distinct = digest of (circuit repr, system, leaf count)")
    state_measure = "set of (gate-kind signature, system under test, #qubits, features) tuples"
    assumptions = [
        "only the first sentence of C13 is decided (state tracking and measurement branches); the group-algebra "
        "sentence about Clifford gate objects is a pure law and is not claimed",
        "cirq.unitary of each individual Clifford operation is the trusted definition of that operation",
        "dense reference limits the size to 6 qubits",
    ]
    real_vs_stub = {
        "real": "CliffordSimulator, StabilizerSampler, StabilizerChFormSimulationState, CliffordTableauSimulationState, "
                "StabilizerStateChForm, CliffordTableau, the gate dispatch / decomposition fall-backs",
        "stub": "the pseudo-random generator (ScriptedPRNG); QRef is the oracle",
    }
    tiers = {"quick": {"runs": 11000, "wall": 85}, "thorough": {"runs": 600000, "wall": 1200}}
    per_run_timeout = 240
    expected_probes = ["sut:ch-steps", "sut:ch-act_on", "sut:tableau-act_on", "sut:simulate", "sut:run",
                       "sut:stab-sampler", "sut:clifford-state", "gen:deep", "mode:single-path", "meas:random", "meas:deterministic", "gate:global-shift", "gate:swap",
                       "gate:fallback-1q", "gate:clifford-gate", "gate:controlled-pauli", "gate:mixture",
                       "gate:global-phase", "ch:multi-coin-measure", "gate:iswap"]

    def setup(self) -> None:
        from simkit import repoenv
        import cirq
        repoenv.assert_working_tree(cirq)
        from engines import qdrive, qref, scripted_prng
        qdrive.install_deterministic_state_hash()
        self.cirq = cirq
        self.qdrive, self.qref, self.sp = qdrive, qref, scripted_prng
        self._cliffords_1q = list(cirq.SingleQubitCliffordGate.all_single_qubit_cliffords)

    # -- generator -----------------------------------------------------------------------------------
    def _gen(self, tape, ctx, allow_mixture: bool, deep: bool = False, allow_reset: bool = False):
        cirq = self.cirq
        n = 1 + tape.weighted([2, 4, 4, 3, 2, 1], "n-qubits")
        if deep:
            n = 3 + tape.draw(4, "n-qubits-deep")      # products of several tableau rows need room
        qs = cirq.LineQubit.range(n)
        # the tableau state is cheap to drive: it gets longer, more entangling histories (a deterministic
        # measurement that must combine three or more generator rows needs depth)
        n_ops = 2 + tape.draw(19, "n-ops") + (tape.draw(41, "extra-ops") if deep else 0)
        if deep:
            ctx.probe("gen:deep")
        c = cirq.Circuit()
        keys = {}
        bits = 0.0
        feats = set()
        half = [0.5, 1, -0.5, 1.5, 0, 2, -1, 2.5]
        shifts = [0, 0.5, -0.5, 0.25, -0.25, 1]
        for _ in range(n_ops):
            k = tape.weighted([6, 5, 4, 2, 2, 1, 2 if allow_mixture else 0, 1, 3 if allow_reset else 0], "kind")
            q = qs[tape.draw(n, "q")]
            op = None
            if k == 0:
                gcls = [cirq.XPowGate, cirq.YPowGate, cirq.ZPowGate, cirq.HPowGate][tape.draw(4, "1q")]
                exp = half[tape.draw(len(half), "exp")] if gcls is not cirq.HPowGate else [1, 0, 2, 3, -1][tape.draw(5, "hexp")]
                if tape.chance(1, 3, "shift?"):
                    sh = shifts[tape.draw(len(shifts), "shift")]
                else:
                    sh = 0 if tape.chance(1, 2, "plain?") else -0.5
                if gcls is cirq.HPowGate and sh == 0:
                    op = (cirq.H ** exp).on(q)
                else:
                    op = gcls(exponent=exp, global_shift=sh).on(q)
                if sh not in (0, -0.5):
                    feats.add("global-shift")
            elif k == 1 and n >= 2:
                a, b = [qs[i] for i in self._two(tape, n)]
                gk = tape.weighted([4, 4, 2, 2, 1], "2q")
                if gk == 0:
                    op = cirq.CXPowGate(exponent=[1, 0, 2, -1, 3][tape.draw(5, "cxexp")],
                                        global_shift=shifts[tape.draw(len(shifts), "shift")] if tape.chance(1, 4, "shift?") else 0).on(a, b)
                elif gk == 1:
                    op = cirq.CZPowGate(exponent=[1, 0, 2, -1][tape.draw(4, "czexp")],
                                        global_shift=shifts[tape.draw(len(shifts), "shift")] if tape.chance(1, 4, "shift?") else 0).on(a, b)
                elif gk == 2:
                    op = cirq.SwapPowGate(exponent=[1, 0, 2, 3][tape.draw(4, "swexp")],
                                          global_shift=shifts[tape.draw(len(shifts), "shift")] if tape.chance(1, 4, "shift?") else 0).on(a, b)
                    feats.add("swap")
                elif gk == 3:
                    op = (cirq.ISWAP ** [1, -1, 2, 3][tape.draw(4, "iswexp")]).on(a, b)
                    feats.add("iswap")
                else:
                    # a two-qubit CliffordGate built from an op list
                    g1 = [cirq.H, cirq.S, cirq.X][tape.draw(3, "cg1")]
                    op = cirq.CliffordGate.from_op_list([g1(a), cirq.CNOT(a, b), cirq.S(b)], [a, b]).on(a, b)
                    feats.add("clifford-gate")
            elif k == 2:
                w = 1 + tape.weighted([5, 2, 1][:n], "m-width")
                idx = self._distinct(tape, n, w)
                key = ["a", "b", "c"][tape.draw(3, "key")]
                if key in keys and keys[key] != w:
                    continue
                if bits + w > (9 if deep else 6):
                    continue
                bits += w
                keys[key] = w
                inv = tuple(bool(tape.draw(2, "inv")) for _ in idx) if tape.chance(1, 3, "invert?") else ()
                op = cirq.measure(*[qs[i] for i in idx], key=key, invert_mask=inv)
            elif k == 3 and keys:
                key = sorted(keys)[tape.draw(len(keys), "ckey")]
                base = [cirq.X, cirq.Y, cirq.Z, cirq.H][tape.draw(4, "cbase")]
                op = base.on(q).with_classical_controls(key)
                feats.add("controlled-pauli")
            elif k == 4:
                g = self._cliffords_1q[tape.draw(len(self._cliffords_1q), "sqc")]
                op = g.on(q)
                feats.add("clifford-gate")
            elif k == 5:
                # single-qubit fall-back path: a Clifford unitary the dispatcher does not know by type
                which = tape.draw(3, "fallback")
                if which == 0:
                    op = cirq.PhasedXZGate(x_exponent=[0.5, 1, 0, -0.5][tape.draw(4, "px")],
                                           z_exponent=[0.5, 1, 0, -0.5][tape.draw(4, "pz")],
                                           axis_phase_exponent=[0.5, 0, 1, -0.5][tape.draw(4, "pa")]).on(q)
                elif which == 1:
                    u = cirq.unitary(self._cliffords_1q[tape.draw(len(self._cliffords_1q), "sqc")])
                    ph = [1, 1j, -1, np.exp(1j * math.pi / 4)][tape.draw(4, "phase")]
                    op = cirq.MatrixGate(u * ph).on(q)
                else:
                    op = cirq.PhasedXPowGate(phase_exponent=[0.5, 0, 1, -0.5][tape.draw(4, "pp")],
                                             exponent=[1, 0.5, -0.5][tape.draw(3, "pe")]).on(q)
                feats.add("fallback-1q")
            elif k == 6:
                p = [0.25, 0.5, 0.125][tape.draw(3, "mix-p")]
                op = [cirq.bit_flip(p), cirq.phase_flip(p), cirq.depolarize(p)][tape.draw(3, "mix")].on(q)
                if bits + 2 > (4 if deep else 6):
                    continue
                bits += 2 if "depolarize" in repr(op) else 1
                feats.add("mixture")
            elif k == 8:
                # reset: on a qubit entangled with others it is a random collapse (one draw per repetition)
                if bits + 1 > 6:
                    continue
                bits += 1
                op = cirq.ResetChannel().on(q)
                feats.add("reset")
            elif k == 7:
                coeff = [1j, -1, -1j, np.exp(1j * math.pi / 4), np.exp(-1j * math.pi / 2)][tape.draw(5, "gphase")]
                op = cirq.global_phase_operation(coeff)
                feats.add("global-phase")
            if op is None:
                continue
            c.append(op, strategy=cirq.InsertStrategy.NEW if tape.chance(1, 5, "new?") else cirq.InsertStrategy.EARLIEST)
        # make sure every qubit exists in the circuit
        for q in qs:
            if q not in c.all_qubits():
                c.append(cirq.I(q))
        if deep:
            # measure every qubit separately at the end: after the first few (random) outcomes the remaining
            # ones are determined, each as a product of several generator rows of the tableau
            for i in tape.shuffle(list(range(n)), "final-order"):
                bits += 1
                c.append(cirq.measure(qs[i], key=f"z{i}"), strategy=cirq.InsertStrategy.NEW)
            feats.add("final-measure-all")
        return c, qs, bits, feats

    @staticmethod
    def _two(tape, n):
        a = tape.draw(n, "qa")
        b = tape.draw(n - 1, "qb")
        if b >= a:
            b += 1
        return a, b

    @staticmethod
    def _distinct(tape, n, w):
        pool = list(range(n))
        return [pool.pop(tape.draw(len(pool), "mq")) for _ in range(w)]

    # -- reference, operation by operation ---------------------------------------------------------------
    def _reference_trace(self, circuit, qs, per_op: bool):
        """List over checkpoints of {records-key: [psi,...]} (checkpoint = after each op or each moment)."""
        qref = self.qref
        ref = qref.QRef(qs, max_branches=2048, branch_mixtures=True)
        branches = [qref.initial_branch(ref.space, 0)]
        trace = []
        for moment in circuit:
            for op in moment.operations:
                branches = ref.step(branches, op)
                if per_op:
                    trace.append(branches)
            if not per_op:
                trace.append(branches)
        return ref, trace

    @staticmethod
    def _key_last(records: dict):
        return tuple(sorted((k, tuple(v[-1])) for k, v in records.items()))

    def _match(self, branches, meas: dict):
        """Reference branches compatible with what the system under test reports (last instance per key)."""
        want = tuple(sorted((k, tuple(int(x) for x in v)) for k, v in meas.items()))
        return [b for b in branches if self._key_last(b.records) == want]

    # -- the run -----------------------------------------------------------------------------------------
    def run_one(self, tape, ctx: Ctx) -> None:
        cirq = self.cirq
        self.qdrive.reset_state_hash_counter()
        sp = self.sp
        ctx.workload = "stabilizer"
        sut = ["ch-steps", "ch-act_on", "tableau-act_on", "simulate", "run", "stab-sampler", "clifford-state"][
            tape.weighted([4, 3, 18, 2, 3, 3, 1], "sut")]
        if sut == "clifford-state":
            return self._clifford_state(tape, ctx)
        allow_mixture = sut in ("simulate", "run", "ch-act_on", "tableau-act_on") and tape.chance(1, 3, "mixtures?")
        deep = sut == "tableau-act_on" and tape.chance(4, 5, "deep?")
        circuit, qs, bits, feats = self._gen(tape, ctx, allow_mixture and not deep, deep=deep,
                                             allow_reset=sut in ("run", "stab-sampler"))
        if sut in ("run", "stab-sampler") and not circuit.has_measurements():
            circuit.append(cirq.measure(*qs[:2], key="z"))
            bits += min(2, len(qs))
        ctx.probe("sut:" + sut)
        for f in sorted(feats):
            ctx.probe("gate:" + f)
        n_leaves = 0
        if sut in ("simulate", "run", "stab-sampler"):
            qd = self.qdrive
            if sut == "simulate":
                cfg = qd.SimConfig("clifford", split=tape.chance(1, 3, "split?"))
                n_leaves = qd.check_simulate(P, circuit, cfg, ctx, max_leaves=300, qubit_order=list(qs),
                                             phase_exact=True)
                # the result's final state is the result's: what a caller does to the object it was handed
                # must not change what the result reports afterwards
                res = cirq.CliffordSimulator(seed=sp.ScriptedPRNG([], chooser=lambda k: 0)).simulate(
                    circuit, qubit_order=list(qs))
                fs = res.final_state
                v0 = np.array(fs.state_vector(), dtype=np.complex128)
                fs.apply_unitary([cirq.X, cirq.H, cirq.S][tape.draw(3, "mutate-with")].on(qs[tape.draw(len(qs), "mutate-q")]))
                v1 = np.array(res.final_state.state_vector(), dtype=np.complex128)
                if not np.allclose(v0, v1, atol=1e-7):
                    raise Violation(f"{P}-SAMPLE-MUTATES", f"[simulate] result.final_state changed after the state "
                                                           f"object obtained from it was modified by its holder\n{circuit}")
            else:
                cfg = qd.SimConfig("clifford" if sut == "run" else "stab-sampler", split=tape.chance(1, 3, "split?"))
                reps = 1 + tape.draw(2 if bits <= 4 else 1, "reps")
                if "reset" in feats and bits <= 4:
                    reps = 2      # whether repetitions are independent samples shows only with two of them
                points = 1
                if bits * reps <= 4 and tape.chance(1, 3, "unparameterized-sweep?"):
                    points = 2      # run_sweep over a symbol the circuit does not use: independent samples
                    ctx.probe("entry:run_sweep-unused-symbol")
                n_leaves = qd.check_run(P, circuit, cfg, reps, ctx, max_leaves=300,
                                        entry="run_sweep" if points > 1 else "run", sweep_points=points)
        else:
            n_leaves = self._stepwise(tape, ctx, circuit, qs, sut, "mixture" in feats, deep)
        ctx.decide("case", repr(circuit), sut, n_leaves)
        ctx.nontrivial = n_leaves >= 2 or len(list(circuit.all_operations())) >= 4
        ctx.steps += n_leaves
        ctx.probe("leaves", n_leaves)
        kinds = tuple(sorted({type(op.gate).__name__ for op in circuit.all_operations() if op.gate is not None}))
        ctx.state((kinds[:6], sut, len(qs), tuple(sorted(feats))[:4]))
        diagram = str(circuit).splitlines()
        ctx.sample = {"circuit": diagram if len(diagram) <= 24 and max(map(len, diagram), default=0) < 200
                      else [repr(op)[:100] for op in circuit.all_operations()][:24],
                      "system_under_test": sut, "leaves_explored": n_leaves, "features": sorted(feats)}

    def _clifford_state(self, tape, ctx) -> None:
        """cirq.CliffordState: apply_unitary / apply_measurement, incl. the non-collapsing form
        (collapse_state_vector=False must leave the state vector untouched and still report
        Born-distributed results)."""
        cirq = self.cirq
        sp = self.sp
        ctx.probe("sut:clifford-state")
        n = 1 + tape.draw(3, "n-qubits")
        qs = cirq.LineQubit.range(n)
        prep = []
        for _ in range(1 + tape.draw(6, "prep-ops")):
            k = tape.draw(4, "prep-kind")
            q = qs[tape.draw(n, "q")]
            if k == 0:
                prep.append(cirq.H(q))
            elif k == 1:
                prep.append(cirq.S(q))
            elif k == 2 and n > 1:
                a, b = self._two(tape, n)
                prep.append(cirq.CNOT(qs[a], qs[b]))
            else:
                prep.append(cirq.X(q))
        mq = [qs[i] for i in self._distinct(tape, n, 1 + tape.draw(min(2, n), "m-width"))]
        n_noncollapsing = 1 + tape.draw(2, "n-noncollapsing")
        qref = self.qref
        ref = qref.QRef(qs)
        branches = ref.run(cirq.Circuit(prep + [cirq.I(q) for q in qs]), 0)
        psi_ref = branches[0].psi
        m_branches = ref.step(branches, cirq.measure(*mq, key="m"))
        p_ref = {}
        for b in m_branches:
            p_ref[b.records["m"][-1]] = p_ref.get(b.records["m"][-1], 0.0) + b.prob

        # qubit_map says which axis each qubit is; the order in which the dict was filled says nothing
        fill_order = tape.shuffle(list(range(n)), "qubit-map-order") if tape.chance(1, 2, "permute-map?") else list(range(n))
        if fill_order != list(range(n)):
            ctx.probe("clifford-state:qubit-map-filled-out-of-order")

        def leaf(prng):
            st = cirq.CliffordState(qubit_map={qs[i]: i for i in fill_order})
            for op in prep:
                st.apply_unitary(op)
            before = np.asarray(st.state_vector(), dtype=np.complex128)
            outs = []
            for _ in range(n_noncollapsing):
                meas = {}
                st.apply_measurement(cirq.measure(*mq, key="m"), meas, prng, collapse_state_vector=False)
                outs.append(tuple(int(x) for x in meas["m"]))
                after = np.asarray(st.state_vector(), dtype=np.complex128)
                if np.max(np.abs(after - before)) > 1e-7:
                    raise Violation(f"{P}-SAMPLE-MUTATES",
                                    f"[clifford-state] apply_measurement(collapse_state_vector=False) changed the "
                                    f"state\n before={np.round(before, 4)}\n after={np.round(after, 4)}\n"
                                    f"prep={prep} measure={mq}")
            return before, outs

        try:
            leaves = sp.explore(leaf, 300)
        except sp.TreeTooLarge:
            ctx.probe("tree-too-large")
            return
        w = {}
        for wt, (before, outs), _t in leaves:
            if np.max(np.abs(before - psi_ref)) > 1e-6:
                raise Violation(f"{P}-CH-STATE", f"[clifford-state] state after apply_unitary sequence differs from the "
                                                 f"reference (incl. phase)\nprep={prep}")
            w[tuple(outs)] = w.get(tuple(outs), 0.0) + wt
        for outs, wt in w.items():
            expect = 1.0
            for o in outs:
                expect *= p_ref.get(o, 0.0)
            if abs(wt - expect) > 1e-6:
                raise Violation(f"{P}-PROB", f"[clifford-state] non-collapsing measurement results {outs} have probability "
                                             f"{wt:.6f}, independent Born-rule samples would have {expect:.6f}\nprep={prep} "
                                             f"measure={mq}")
        ctx.decide("case", "clifford-state", repr(prep), repr(mq), n_noncollapsing, len(leaves))
        ctx.nontrivial = len(leaves) >= 2
        ctx.steps += len(leaves)
        ctx.state(("clifford-state", n, len(mq), n_noncollapsing))
        ctx.sample = {"system_under_test": "cirq.CliffordState", "prep": [str(o) for o in prep],
                      "measured": [str(q) for q in mq], "non_collapsing_measurements": n_noncollapsing,
                      "leaves_explored": len(leaves)}

    def _stepwise(self, tape, ctx, circuit, qs, sut: str, has_mixture: bool, deep: bool = False) -> int:
        cirq = self.cirq
        sp = self.sp
        per_op = sut != "ch-steps"
        # long histories: compare after every measurement and at the end only (the reference still
        # advances operation by operation)
        sparse_checks = per_op and (deep or len(list(circuit.all_operations())) > 24)
        single_path = deep and sut == "tableau-act_on"
        if single_path:
            ref, trace = None, None      # the reference follows the one path taken (see below)
        else:
            ref, trace = self._reference_trace(circuit, qs, per_op)
        n = len(qs)
        ops = list(circuit.all_operations())

        def snapshot(state_obj, sim_state, kind):
            meas = {k: tuple(int(x) for x in v) for k, v in sim_state.log_of_measurement_results.items()}
            if kind == "ch":
                return meas, np.asarray(state_obj.state_vector(), dtype=np.complex128), None
            stabs = [s for s in state_obj.stabilizers()]
            destabs = [d for d in state_obj.destabilizers()]
            return meas, None, (stabs, destabs)

        # Things a user may do to a state between operations that must leave it as it is: draw a sample from it
        # (any number of repetitions, one included), and try an operation the state cannot take (the attempt is
        # refused with TypeError and must not have applied part of the operation's decomposition).
        n_units = len(list(circuit)) if sut == "ch-steps" else len(ops)
        poke_at = tape.draw(max(1, n_units), "poke-at") if (not deep and tape.chance(1, 2, "poke?")) else None
        poke_kind = tape.draw(2, "poke-kind") if sut != "ch-steps" else 0
        poke_reps = 1 + tape.draw(2, "poke-reps")
        poke_axes = self._distinct(tape, n, 1 + tape.draw(min(2, n), "poke-width"))
        rejected = None
        if n >= 2:
            a, b = [qs[i] for i in self._two(tape, n)]
            rejected = [cirq.ISWAP(a, b) ** 0.5, cirq.SWAP(a, b) ** 0.5, cirq.XX(a, b) ** 0.25,
                        cirq.FSimGate(0.3, 0.2).on(a, b)][tape.draw(4, "rejected-gate")]
        if poke_at is not None:
            ctx.probe("poke:" + ("sample" if poke_kind == 0 or rejected is None else "rejected-gate"))

        def poke(i, rep, st):
            if poke_at != i:
                return
            quiet = sp.ScriptedPRNG([], chooser=lambda k: 0)      # its draws are not part of the case
            if poke_kind == 0 or rejected is None:
                rep.sample(list(poke_axes), repetitions=poke_reps, seed=quiet)
            else:
                try:
                    cirq.act_on(rejected, st)
                except TypeError:
                    return
                raise Violation(f"{P}-SUT-EXCEPTION", f"[{sut}] act_on({rejected}) was accepted by a stabilizer state")

        def leaf(prng):
            snaps = []
            if sut == "ch-steps":
                sim = cirq.CliffordSimulator(seed=prng)
                meas = {}
                for i, step in enumerate(sim.simulate_moment_steps(circuit, qubit_order=list(qs))):
                    for k, v in step.measurements.items():
                        meas[k] = tuple(int(x) for x in v)
                    if poke_at == i:
                        step.sample([qs[x] for x in poke_axes], repetitions=poke_reps,
                                    seed=sp.ScriptedPRNG([], chooser=lambda k: 0))
                    snaps.append((dict(meas), np.asarray(step.state.state_vector(), dtype=np.complex128), None))
                return snaps
            if sut == "ch-act_on":
                st = cirq.StabilizerChFormSimulationState(qubits=list(qs), prng=prng, initial_state=0)
                for i, op in enumerate(ops):
                    cirq.act_on(op, st)
                    poke(i, st.state, st)
                    snaps.append(snapshot(st.state, st, "ch"))
                return snaps
            st = cirq.CliffordTableauSimulationState(tableau=cirq.CliffordTableau(num_qubits=n), qubits=list(qs), prng=prng)
            for i, op in enumerate(ops):
                cirq.act_on(op, st)
                poke(i, st.tableau, st)
                snaps.append(snapshot(st.tableau, st, "tab"))
            return snaps

        if single_path:
            # long histories on the cheap tableau state: follow ONE tape-chosen outcome path per case
            # (every per-snapshot check is valid per path; the probability sums are skipped) -- many more
            # deep histories per second than enumerating every coin sequence of each
            prng = sp.ScriptedPRNG([], chooser=lambda k: tape.draw(k, "outcome"))
            snaps1 = leaf(prng)
            leaves = [(prng.weight, snaps1, prng.trace)]
            ctx.probe("mode:single-path")
            # reference along that path only: after every operation keep the branches that agree with the
            # results reported so far
            qref = self.qref
            ref = qref.QRef(qs, max_branches=4096, branch_mixtures=True)
            branches = [qref.initial_branch(ref.space, 0)]
            trace = []
            for i, op in enumerate(ops):
                branches = ref.step(branches, op)
                keep = self._match(branches, snaps1[i][0])
                if not keep:
                    raise Violation(f"{P}-PROB", f"[{sut}] after operation {i} ({op}): measurement results "
                                                 f"{snaps1[i][0]} have probability 0 in the reference\n{circuit}")
                branches = keep
                trace.append(branches)
        else:
            try:
                leaves = sp.explore(leaf, 160)
            except sp.TreeTooLarge:
                ctx.probe("tree-too-large")
                return 0
        tol = 1e-6
        total = 0.0
        w_final = {}
        for w, snaps, trc in leaves:
            total += w
            if len(snaps) != len(trace):
                raise HarnessError(f"{len(snaps)} snapshots for {len(trace)} reference checkpoints")
            n_coins = sum(1 for kind, _p, _o in trc if kind == "randint")
            if sut.startswith("ch") and n_coins >= 3:
                ctx.probe("ch:multi-coin-measure")
            for i, (meas, vec, tab) in enumerate(snaps):
                if sparse_checks and i != len(snaps) - 1 and not cirq.is_measurement(ops[i]):
                    continue
                cands = self._match(trace[i], meas)
                where = f"after {'operation' if per_op else 'moment'} {i} ({ops[i] if per_op else ''})"
                if not cands:
                    raise Violation(f"{P}-PROB", f"[{sut}] {where}: measurement results {meas} have probability 0 "
                                                 f"in the reference\n{circuit}")
                if vec is not None:
                    if has_mixture or len(cands) != 1:
                        # hidden branching (mixture) or repeated keys: the state must equal one candidate
                        ok = any(np.max(np.abs(vec - b.psi)) <= tol for b in cands if b.psi is not None)
                    else:
                        ok = np.max(np.abs(vec - cands[0].psi)) <= tol
                    if not ok:
                        raise Violation(f"{P}-CH-STATE",
                                        f"[{sut}] {where}: CH-form state vector (incl. global phase) differs from the "
                                        f"reference\n sim={np.round(vec, 4)}\n ref={np.round(cands[0].psi, 4)}\n{circuit}")
                if tab is not None:
                    stabs, destabs = tab
                    good = False
                    for b in cands:
                        if b.psi is None:
                            continue
                        if all(np.max(np.abs(_apply_dense_pauli(sg, b.psi) - b.psi)) <= tol for sg in stabs):
                            good = True
                            break
                    if not good:
                        raise Violation(f"{P}-TABLEAU",
                                        f"[{sut}] {where}: a stabilizer of the tableau does not stabilize the "
                                        f"reference state; stabilizers={[str(s) for s in stabs]} results={meas}\n{circuit}")
                    if i == len(snaps) - 1:
                        for a in range(n):
                            for bq in range(n):
                                comm = _paulis_commute(stabs[a], destabs[bq])
                                if a == bq and comm:
                                    raise Violation(f"{P}-TABLEAU", f"[{sut}] {where}: destabilizer {a} does not "
                                                                    f"anticommute with its stabilizer\n{circuit}")
                                if a != bq and not comm:
                                    raise Violation(f"{P}-TABLEAU", f"[{sut}] {where}: destabilizer {bq} does not "
                                                                    f"commute with stabilizer {a}\n{circuit}")
                            for bq in range(a + 1, n):
                                if not _paulis_commute(stabs[a], stabs[bq]):
                                    raise Violation(f"{P}-TABLEAU", f"[{sut}] {where}: stabilizers {a} and {bq} do "
                                                                    f"not commute\n{circuit}")
            fk = tuple(sorted(snaps[-1][0].items())) if snaps else ()
            w_final[fk] = w_final.get(fk, 0.0) + w
        if single_path:
            return len(leaves)
        if abs(total - 1) > 1e-6:
            raise Violation(f"{P}-PROB", f"[{sut}] coin sequences have total probability {total}\n{circuit}")
        # outcome probabilities (by last instance of every key)
        p_ref = {}
        for b in (trace[-1] if trace else []):
            k = self._key_last(b.records)
            p_ref[k] = p_ref.get(k, 0.0) + b.prob
        for k in set(w_final) | set(p_ref):
            if abs(w_final.get(k, 0.0) - p_ref.get(k, 0.0)) > 1e-6:
                raise Violation(f"{P}-PROB", f"[{sut}] results {dict(k)} have probability {w_final.get(k, 0.0):.6f} "
                                             f"under the stabilizer simulation but {p_ref.get(k, 0.0):.6f} in the "
                                             f"reference\n{circuit}")
        if any(0 < p < 1 - 1e-9 for p in p_ref.values()):
            ctx.probe("meas:random")
        elif p_ref and any(cirq.is_measurement(op) for op in ops):
            ctx.probe("meas:deterministic")
        return len(leaves)


CHECK = C13()
