"""C20 -- asynchronous job orchestration resolves every job exactly once."""
from __future__ import annotations

from simkit.core import Check, Ctx


class C20(Check):
    property_id = "C20"
    engine = "E1 SimDuet + E2 SimLoop + E3 model Quantum Engine"
    technique = ("deterministic simulation: real duet/asyncio code stepped by a seeded scheduler, "
                 "model Quantum Engine peer, injected stream/job/cancel faults, history oracles")
    rule = ("one run = one tape-decided schedule (completion order, event interleaving, fault placement) of one "
            "workload (W1 collector, W2 sampler fan-out, W3 stream client); non-trivial = at least two jobs "
            "were started; distinct = distinct digest of the decoded decision sequence (config + every "
            "scheduler/fault decision)")
    state_measure = "workload-specific abstract states (see DESIGN.md C20: evidence specifics)"
    assumptions = [
        "interleaving granularity is one duet task advance / one asyncio callback / one server action; "
        "bytecode-level races between the duet thread and the asyncio thread are not explored",
        "the Quantum Engine is a model (E3) inferred from the client's retry table, the proto enum and the "
        "repository's own fake stream",
    ]
    real_vs_stub = {
        "real": "duet 0.2.9 (tasks, scopes, Limiter, AsyncCollector), cirq.Collector, PauliSumCollector, "
                "cirq.Sampler shims",
        "stub": "duet Scheduler.time and the wait for readiness; the sampler backend (fake, simulator-completed)",
    }
    tiers = {"quick": {"runs": 30000, "wall": 80}, "thorough": {"runs": 3000000, "wall": 1200}}
    expected_probes = ["w1:out-of-order-completion", "w1:declined-with-work-left", "w1:budget-exhausted",
                       "w1:error-with-jobs-in-flight"]

    def setup(self) -> None:
        from simkit import repoenv
        import cirq
        repoenv.assert_working_tree(cirq)
        from checks import c20_w1  # noqa: F401
        self._w1 = c20_w1

    def run_one(self, tape, ctx: Ctx) -> None:
        self._w1.run(tape, ctx)


CHECK = C20()
