"""E4, part 1 -- the scripted pseudo-random source and the branch-tree explorer.

`cirq.value.parse_random_state` uses any non-int, non-None `seed` object
unmodified ("a custom pseudorandom number generator implementation").
`ScriptedPRNG` is such an object.  It implements exactly what the simulators
call -- choice(a, size, replace, p), random(), randint(low, high) -- validates
`p` the way numpy.random.RandomState.choice does, *records the probability
vector it was offered* and returns the outcome its script prescribes.  Any
other attribute raises: an unscripted source of randomness is a harness
error, never silently ignored.

One script = one root-to-leaf path of the simulator's branch tree; the weight
of the path is the product of the offered probabilities of the outcomes taken.
`explore()` enumerates the whole tree by stateless depth-first search (re-run
with the next script), so that

    sum over leaves with records r of weight(leaf)            = P_sim(r)
    sum over leaves with records r of weight(leaf) |psi><psi| = P_sim(r) rho_sim(r)

can be compared *exactly* (no statistics) with the reference distribution.

`random()` returns a `ScriptedUniform`: the only consumer
(StateVectorSimulationState.apply_channel) subtracts Kraus weights from it and
compares with 0, so the object learns the weights from the arithmetic done on
it and answers each comparison from the script; a branch taken after weights
w_1..w_k has path weight w_k (the length of its u-interval).
"""
from __future__ import annotations

import math
from typing import Any, Callable, List, Optional, Tuple

import numpy as np

from simkit.core import HarnessError, Violation

VIABLE_EPS = 1e-7        # outcomes offered with probability below this are not explored


class RejectedByGenerator(ValueError):
    """numpy.random.RandomState.choice would raise ValueError for these arguments: the fault is the
    caller's (the code under test), not the harness's.  `sut_fault` makes the runner skip this
    module's frame when it decides whose exception this is."""

    sut_fault = True


class TreeTooLarge(Exception):
    pass


class NondeterministicReplay(Exception):
    pass


class ScriptedPRNG:
    def __init__(self, script: Optional[List[int]] = None, chooser: Optional[Callable] = None):
        self.script = list(script or [])
        self.chooser = chooser       # single-path mode: picks among the viable outcomes once the script is used up
        self.pos = 0
        self.weight = 1.0
        self.taken: List[int] = []
        self.frontier: List[List[int]] = []       # viable outcomes at each decision
        self.trace: List[Tuple[str, Tuple[float, ...], int]] = []
        self.bad_p: Optional[str] = None
        self.force_fallback_call: Optional[int] = None   # n-th random() answers "not below" throughout
        self.fallback_forced = False
        self.calls = {"choice": 0, "random": 0, "randint": 0}

    # -- copying: a simulation state copy must keep drawing from the same script -----------------
    def __deepcopy__(self, memo):
        return self

    def __copy__(self):
        return self

    # -- core ------------------------------------------------------------------------------------------
    def decide(self, kind: str, probs) -> int:
        probs = [float(x) for x in probs]
        viable = [i for i, p in enumerate(probs) if p > VIABLE_EPS]
        if not viable:
            viable = [int(np.argmax(probs))]
        if self.pos < len(self.script):
            o = self.script[self.pos]
            if o not in viable:
                raise NondeterministicReplay(
                    f"draw #{self.pos} ({kind}) was offered {probs} on replay; scripted outcome {o} is not viable")
        else:
            o = viable[self.chooser(len(viable))] if self.chooser is not None else viable[0]
            self.script.append(o)
        self.pos += 1
        self.taken.append(o)
        self.frontier.append(viable)
        self.weight *= probs[o]
        self.trace.append((kind, tuple(round(p, 9) for p in probs), o))
        return o

    # -- numpy.random.RandomState surface used by the simulators -----------------------------------
    def choice(self, a, size=None, replace=True, p=None):
        self.calls["choice"] += 1
        if isinstance(a, (int, np.integer)):
            n = int(a)
            pop = None
        else:
            pop = list(a)
            n = len(pop)
        if n <= 0:
            raise ValueError("a must be non-empty")
        if p is None:
            probs = np.full(n, 1.0 / n)
        else:
            probs = np.asarray(p)
            # the checks numpy.random.RandomState.choice performs
            atol = math.sqrt(np.finfo(np.float64).eps)
            if isinstance(p, np.ndarray) and np.issubdtype(p.dtype, np.floating):
                atol = max(atol, math.sqrt(np.finfo(p.dtype).eps))
            probs = probs.astype(np.float64)
            if probs.ndim != 1:
                raise RejectedByGenerator("'p' must be 1-dimensional")
            if probs.size != n:
                raise RejectedByGenerator("'a' and 'p' must have same size")
            if np.any(np.isnan(probs)):
                raise RejectedByGenerator("probabilities contain NaN")
            if np.any(probs < 0):
                raise RejectedByGenerator("probabilities are not non-negative")
            if abs(float(np.sum(probs)) - 1.0) > atol:
                raise RejectedByGenerator("probabilities do not sum to 1")
        if size is None:
            o = self.decide("choice", probs)
            return pop[o] if pop is not None else np.int64(o)
        count = int(np.prod(size))
        outs = [self.decide("choice", probs) for _ in range(count)]
        arr = np.array([pop[o] for o in outs] if pop is not None else outs, dtype=None if pop is not None else np.int64)
        return arr.reshape(size)

    def randint(self, low, high=None, size=None, dtype=int):
        self.calls["randint"] += 1
        if high is None:
            low, high = 0, low
        n = int(high) - int(low)
        if n <= 0:
            raise ValueError("low >= high")
        probs = [1.0 / n] * n
        if size is None:
            return int(low) + self.decide("randint", probs)
        count = int(np.prod(size))
        return np.array([int(low) + self.decide("randint", probs) for _ in range(count)]).reshape(size)

    def random(self, size=None):
        self.calls["random"] += 1
        if size is not None:
            raise HarnessError("ScriptedPRNG.random(size=...) is not scripted")
        if self.force_fallback_call is not None and self.calls["random"] - 1 == self.force_fallback_call:
            self.fallback_forced = True
            return ScriptedUniform(self, forced_no=True)
        return ScriptedUniform(self)

    random_sample = random

    def __getattr__(self, name):
        if name.startswith("__"):
            raise AttributeError(name)
        raise HarnessError(f"unscripted source of randomness: prng.{name} was requested by the code under test")


class ScriptedUniform:
    """A symbolic draw u ~ U[0,1): learns the weights subtracted from it, answers `< 0` / `>= 0`."""

    def __init__(self, prng: ScriptedPRNG, subtracted: Tuple[float, ...] = (), decided: Optional[dict] = None,
                 forced_no: bool = False):
        self._prng = prng
        self._sub = tuple(subtracted)
        self._decided = decided if decided is not None else {}
        self._forced_no = forced_no     # the draw u = 1 - 2**-53 with weights that sum to slightly less than 1

    def __sub__(self, w):
        return ScriptedUniform(self._prng, self._sub + (float(w),), self._decided, self._forced_no)

    __isub__ = __sub__

    def _below_zero(self) -> bool:
        """Is u - sum(subtracted) < 0 ?  Decided once per distinct prefix of subtractions."""
        k = len(self._sub)
        if self._forced_no:
            return False
        if k in self._decided:
            return self._decided[k]
        if k == 0:
            ans = False                     # u >= 0 always
        else:
            prev_no = all(not self._decided.get(j, False) for j in range(1, k))
            if not prev_no:
                ans = True                  # already below zero earlier: stays below
            else:
                cum_prev = sum(self._sub[:-1])
                rest = max(0.0, 1.0 - cum_prev)
                w = self._sub[-1]
                p_yes = 1.0 if rest <= 0 else min(1.0, max(0.0, w / rest))
                o = self._prng.decide("uniform<cum", [1.0 - p_yes, p_yes])
                ans = bool(o)
        self._decided[k] = ans
        return ans

    def __lt__(self, other):
        if other != 0:
            raise HarnessError("ScriptedUniform compared with a non-zero value")
        return self._below_zero()

    def __ge__(self, other):
        if other != 0:
            raise HarnessError("ScriptedUniform compared with a non-zero value")
        return not self._below_zero()

    def __float__(self):
        raise HarnessError("ScriptedUniform was converted to float: the consumer is not the known Kraus sampler")


def explore(run_leaf: Callable[[ScriptedPRNG], Any], max_leaves: int):
    """Enumerate every root-to-leaf path.  Returns a list of (weight, result, trace)."""
    leaves = []
    script: List[int] = []
    while True:
        prng = ScriptedPRNG(script)
        result = run_leaf(prng)
        if prng.pos < len(script):
            raise NondeterministicReplay(f"replay consumed {prng.pos} of {len(script)} scripted draws")
        leaves.append((prng.weight, result, prng.trace))
        if len(leaves) > max_leaves:
            raise TreeTooLarge()
        taken, frontier = prng.taken, prng.frontier
        i = len(taken) - 1
        nxt = None
        while i >= 0:
            v = frontier[i]
            idx = v.index(taken[i])
            if idx + 1 < len(v):
                nxt = taken[:i] + [v[idx + 1]]
                break
            i -= 1
        if nxt is None:
            return leaves
        script = nxt


# -- integer seeds ---------------------------------------------------------------------------------------
class _IntSeedStream(ScriptedPRNG):
    """What `np.random.RandomState(n)` is, for the explorer.  Two RandomState objects made from one
    integer produce one stream of numbers, so generators of one family share, per seed, a log of what
    is known about the k-th number of that stream:

    * `choice(..., p=...)` consumes one uniform u_k per element and returns the index i with
      cdf[i] <= u_k < cdf[i+1] (numpy: cdf.searchsorted(u, side='right')).  The first generator to
      reach position k decides the outcome freely (master script, weight p[i]) and the log keeps the
      interval of u_k; a later generator asking *any* choice question at position k gets an outcome
      consistent with that interval -- decided with the conditional probabilities (overlap lengths) if
      the interval straddles several of its cdf cells -- and narrows the interval.
    * every other kind of draw (randint / choice without p, the symbolic uniform of the Kraus sampler)
      is replayed only when exactly the same question is asked at the same position; anything else is
      UnmodelledSeedReuse and the run is skipped, not judged.

    Fresh and conditional decisions both go through the master script, so a path weight stays the
    product of the probabilities of the decisions taken."""

    def __init__(self, family: "IntSeedStreams", seed: int):
        super().__init__()
        self._family = family
        self._seed = seed
        self._k = 0
        self._with_p = False

    def choice(self, a, size=None, replace=True, p=None):
        self._with_p = p is not None
        try:
            return super().choice(a, size=size, replace=replace, p=p)
        finally:
            self._with_p = False

    def decide(self, kind: str, probs) -> int:
        log = self._family.logs.setdefault(self._seed, [])
        probs = [float(p) for p in probs]
        k = self._k
        self._k += 1
        master = self._family.master
        if kind == "choice" and self._with_p:
            tot = sum(probs)
            cdf = [0.0]
            for p in probs:
                cdf.append(cdf[-1] + p / tot)
            if k >= len(log):
                o = master.decide(kind, probs)
                log.append(["u", cdf[o], cdf[o + 1]])
                return o
            entry = log[k]
            if entry[0] != "u":
                raise UnmodelledSeedReuse(f"seed {self._seed}, draw {k}: {entry[0]} then choice(p=...)")
            lo, hi = entry[1], entry[2]
            width = hi - lo
            cond = [max(0.0, min(hi, cdf[i + 1]) - max(lo, cdf[i])) / width for i in range(len(probs))]
            o = master.decide("choice|same-seed", cond)
            entry[1], entry[2] = max(lo, cdf[o]), min(hi, cdf[o + 1])
            self._family.replayed += 1
            return o
        sig = (kind, tuple(round(p, 9) for p in probs))
        if k < len(log):
            entry = log[k]
            if entry[0] != "sig" or entry[1] != sig:
                # same underlying numbers, different question: numpy's answer is correlated in a way
                # this model does not compute
                raise UnmodelledSeedReuse(f"generators made from seed {self._seed} ask different questions "
                                          f"at draw {k}: {entry[:2]} / {sig}")
            self._family.replayed += 1
            return entry[2]
        o = master.decide(kind, probs)
        log.append(["sig", sig, o])
        return o


class UnmodelledSeedReuse(Exception):
    pass


class IntSeedStreams:
    def __init__(self, master: ScriptedPRNG):
        self.master = master
        self.logs = {}
        self.made = 0
        self.replayed = 0

    def make(self, seed=None):
        if not isinstance(seed, (int, np.integer)):
            raise HarnessError(f"np.random.RandomState({seed!r}) requested by the code under test is not scripted")
        self.made += 1
        return _IntSeedStream(self, int(seed))


class int_seeds_scripted:
    """Context manager: inside it, cirq.value.parse_random_state(<int>) -- the one place where the
    library turns an integer seed into a generator -- yields scripted streams of `master`."""

    def __init__(self, master: ScriptedPRNG):
        self.family = IntSeedStreams(master)

    def __enter__(self):
        import cirq.value.random_state as rs_mod
        family = self.family
        real_np = rs_mod.np

        class _Random:
            def __getattr__(self, name):
                return getattr(real_np.random, name)

            @staticmethod
            def RandomState(seed=None):
                return family.make(seed)

        class _NP:
            random = _Random()

            def __getattr__(self, name):
                return getattr(real_np, name)

        self._mod, self._real = rs_mod, real_np
        rs_mod.np = _NP()
        return family

    def __exit__(self, *exc):
        self._mod.np = self._real
        return False
