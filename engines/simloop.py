"""E2 -- the asyncio side, single-threaded and stepped by the simulator.

`AsyncioExecutor` (cirq_google.engine.asyncio_executor) runs a real event loop
on a daemon thread and keeps its singleton in the class attribute `_instance`.
Here an instance is created *without* running `__init__` (so no thread starts)
whose `.loop` is a `SimLoop`: a `BaseEventLoop` with no selector, whose clock
is the simulator's and which runs exactly one ready callback per `step()`.
The real `AsyncioExecutor.submit` is used unchanged (run_coroutine_threadsafe +
duet.AwaitableFuture.wrap), so the cross-thread result / cancellation plumbing
is Cirq's own.  The only addition: the future `submit` returns drives the loop
when somebody calls `.result()` on it synchronously (StreamManager.__init__ and
._reset do), which in production is "the other thread runs meanwhile".

FIFO order of ready callbacks inside the loop is preserved (asyncio guarantees
it and code may rely on it); what the tape decides is how loop steps interleave
with everything else.
"""
from __future__ import annotations

import asyncio
import contextlib
import heapq
from asyncio import events
from concurrent.futures import Future
from typing import Optional

from engines.sim import Sim
from simkit.core import HarnessError


class SimLoop(asyncio.BaseEventLoop):
    def __init__(self, sim: Sim):
        super().__init__()
        self.sim = sim
        self.unhandled = []          # exceptions reported to the loop's exception handler
        self.set_exception_handler(self._on_exception)
        self.steps_run = 0
        self.tearing_down = False

    # -- the pieces BaseEventLoop leaves abstract ------------------------------------------------
    def time(self) -> float:
        return self.sim.now

    def _process_events(self, event_list) -> None:  # no selector
        pass

    def _write_to_self(self) -> None:               # no self-pipe: one thread
        pass

    def call_soon_threadsafe(self, callback, *args, context=None):
        return self.call_soon(callback, *args, context=context)

    def _on_exception(self, loop, context) -> None:
        if self.tearing_down:
            return
        self.unhandled.append({k: repr(v) for k, v in context.items()})

    # -- stepping ----------------------------------------------------------------------------------
    def _move_due_timers(self) -> None:
        sched = self._scheduled
        now = self.time()
        while sched and (sched[0]._cancelled or sched[0]._when <= now):
            h = heapq.heappop(sched)
            h._scheduled = False
            if not h._cancelled:
                self._ready.append(h)

    def has_ready(self) -> bool:
        self._move_due_timers()
        while self._ready and self._ready[0]._cancelled:
            self._ready.popleft()
        return bool(self._ready)

    def step(self) -> None:
        """Run exactly one ready callback."""
        if not self.has_ready():
            return
        handle = self._ready.popleft()
        if handle._cancelled:
            return
        self.steps_run += 1
        prev = events._get_running_loop()
        events._set_running_loop(self)
        try:
            handle._run()
        finally:
            events._set_running_loop(prev)
        handle = None

    # event-source protocol
    def enabled(self):
        return [("loop", self.step)] if self.has_ready() else []

    # timer-source protocol
    def next_timer(self) -> Optional[float]:
        sched = self._scheduled
        while sched and sched[0]._cancelled:
            h = heapq.heappop(sched)
            h._scheduled = False
        return sched[0]._when if sched else None

    def quiescent(self) -> bool:
        return not self.has_ready()


def make_executor(sim: Sim, loop: SimLoop):
    """An AsyncioExecutor whose __init__ never ran (no thread), bound to `loop`."""
    from cirq_google.engine.asyncio_executor import AsyncioExecutor

    class SimExecutor(AsyncioExecutor):
        def __init__(self):  # pragma: no cover - never called
            raise HarnessError("SimExecutor is created with object.__new__")

        def submit(self, func, *args, **kwargs):
            fut = AsyncioExecutor.submit(self, func, *args, **kwargs)   # real code
            real_result = fut.result

            def driving_result(timeout=None):
                # Synchronous wait from the "duet thread": the asyncio thread keeps running.
                guard = 0
                while not fut.done():
                    if not loop.has_ready():
                        raise HarnessError("synchronous .result() on a future the loop cannot complete")
                    loop.step()
                    guard += 1
                    if guard > 10000:
                        raise HarnessError("synchronous .result() did not complete in 10000 loop steps")
                return Future.result(fut, timeout)

            fut.result = driving_result
            return fut

    ex = object.__new__(SimExecutor)
    ex.loop = loop
    return ex


@contextlib.contextmanager
def installed(sim: Sim):
    """Install a SimLoop-backed executor as the AsyncioExecutor singleton."""
    from cirq_google.engine.asyncio_executor import AsyncioExecutor

    loop = SimLoop(sim)
    ex = make_executor(sim, loop)
    prev = AsyncioExecutor._instance
    AsyncioExecutor._instance = ex
    sim.add_source(loop)
    sim.add_timer_source(loop)
    try:
        yield loop
    finally:
        AsyncioExecutor._instance = prev
        sim.ctx.frozen = True
        _teardown(loop)


def _teardown(loop: SimLoop) -> None:
    """End of run: cancel whatever still runs and let it unwind inside the loop, so that no
    coroutine is finalised by the garbage collector against a closed loop."""
    loop.tearing_down = True
    try:
        for _round in range(20):
            tasks = [t for t in asyncio.all_tasks(loop) if not t.done()]
            if not tasks and not loop.has_ready():
                break
            for t in tasks:
                t.cancel()
            for _ in range(20000):
                if not loop.has_ready():
                    break
                loop.step()
        for t in list(asyncio.all_tasks(loop)):
            t._log_destroy_pending = False
        loop._ready.clear()
        loop._scheduled.clear()
        loop.unhandled_at_teardown = True
        loop.close()
    except Exception:  # noqa: BLE001
        pass
