"""E6 coordinator side: node processes, frames, timeouts, restart, zygotes and the per-process node pool.

A *node* is an interpreter process with a PYTHONHASHSEED chosen by the coordinator that has imported the
five Cirq packages from VERIF_REPO and serves request frames (4-byte big-endian length + pickle).  The
payloads under test travel as bytes inside the frames; only bytes the coordinator holds survive a restart.

How nodes come to be.  A cold start of `/venv/bin/python engines/node_main.py` costs 3-5 s of import
(10+ s when sixteen of them start at once), a run costs ~0.1 s.  So `start_zygotes()` -- called once by
the check's setup(), i.e. in the parent before the runner forks its workers -- starts ONE such interpreter
per hash seed in *zygote* mode: it imports everything, then answers every connection to its unix socket
with fork().  The child is a node: same hash seed, same freshly imported state, nothing else.  All workers
of the batch connect to the same six zygotes.  Node start = connect + fork (~20 ms), so by default every run
gets nodes nobody has used before and a run is a pure function of its tape by construction; a *restart* is
kill -9 + a new fork from the zygote of another hash seed.

Pool.  Each process that executes runs keeps a `Pool`.  With VERIF_NODE_REUSE=N (default 0) a released
node is kept for up to N further runs and handed out again after a `reset` op (drop every held value,
gc.collect()).  Reuse is what makes the fallback mode VERIF_NODE_MODE=spawn (no zygotes, one cold interpreter
per node) affordable; there, nodes are indexed by hash seed and a restart takes another seed's node.
In either mode nodes report verdicts (booleans) and type names only, so nothing that earlier runs left in an
interpreter (resolver caches, functools caches, interned qubits) can reach the event log.

Failure classes.  status "sut" = an exception inside a call into the code under test that the property
says must succeed (returned to the check, which raises the violation); status "error", a timeout, or a dead
node = HarnessError (exit 2) -- except a node that died printing a Python traceback whose innermost frame is
under VERIF_REPO, which is reported as NodeDied(sut_traceback=True) so that the check can classify it as a
SUT-EXCEPTION with the traceback text.
"""
from __future__ import annotations

import atexit
import os
import pickle
import select
import shutil
import signal
import socket
import struct
import subprocess
import sys
import tempfile
import time
from typing import Dict, List, Optional

from simkit import repoenv
from simkit.core import HarnessError

NODE_MAIN = os.path.join(os.path.dirname(os.path.abspath(__file__)), "node_main.py")
PYTHON = sys.executable

# the hash seeds a tape can choose from (index 0 and 1 are the shrink targets)
HASH_SEEDS = (0, 1, 4242, 31337, 2718281, 99)

START_TIMEOUT = float(os.environ.get("VERIF_NODE_START_TIMEOUT", "300"))
CALL_TIMEOUT = float(os.environ.get("VERIF_NODE_CALL_TIMEOUT", "90"))
MAX_IDLE = 6


class NodeDied(HarnessError):
    def __init__(self, msg: str, stderr_tail: str = "", sut_traceback: bool = False):
        super().__init__(msg)
        self.stderr_tail = stderr_tail
        self.sut_traceback = sut_traceback


def _node_env(hashseed: int) -> Dict[str, str]:
    env = {k: v for k, v in os.environ.items() if k != "VERIF_DIGESTS"}
    env["PYTHONHASHSEED"] = str(hashseed)
    env["VERIF_REPO"] = repoenv.repo_root()
    env.pop("PYTHONPATH", None)
    # nodes do small-matrix work only; no BLAS thread pools (also: the zygote forks, keep it single-threaded)
    for k in ("OPENBLAS_NUM_THREADS", "OMP_NUM_THREADS", "MKL_NUM_THREADS"):
        env[k] = "1"
    return env


# -----------------------------------------------------------------------------------------------------
# zygotes: one pre-imported interpreter per hash seed, forked on demand
# -----------------------------------------------------------------------------------------------------
class Zygotes:
    def __init__(self):
        self.owner = os.getpid()
        self.dir = tempfile.mkdtemp(prefix="verif-zygotes-", dir=os.environ.get("TMPDIR") or "/dev/shm")
        self.procs: Dict[int, subprocess.Popen] = {}
        self.t_started = time.monotonic()
        for s in HASH_SEEDS:
            log = open(self.log_path(s), "wb")
            self.procs[s] = subprocess.Popen(
                [PYTHON, "-X", "faulthandler", NODE_MAIN, "--zygote", self.socket_path(s)],
                stdin=subprocess.DEVNULL, stdout=log, stderr=log, env=_node_env(s), close_fds=True,
                cwd=os.path.dirname(NODE_MAIN))
            log.close()

    def socket_path(self, seed: int) -> str:
        return os.path.join(self.dir, f"zygote-{seed}.sock")

    def log_path(self, seed: int) -> str:
        return os.path.join(self.dir, f"zygote-{seed}.log")

    def log_tail(self, seed: int, n: int = 6000) -> str:
        try:
            with open(self.log_path(seed), "rb") as f:
                f.seek(0, 2)
                size = f.tell()
                f.seek(max(0, size - n))
                return f.read().decode("utf-8", "replace")
        except OSError:
            return ""

    def alive(self, seed: int) -> bool:
        if os.getpid() != self.owner:
            return os.path.exists(self.dir)       # a forked worker cannot poll its parent's children
        return self.procs[seed].poll() is None

    def shutdown(self) -> None:
        if os.getpid() != self.owner:
            return
        for p in self.procs.values():
            try:
                if p.poll() is None:
                    p.kill()
            except Exception:  # noqa: BLE001
                pass
        for p in self.procs.values():
            try:
                p.wait(timeout=10)
            except Exception:  # noqa: BLE001
                pass
        shutil.rmtree(self.dir, ignore_errors=True)


_ZYGOTES: Optional[Zygotes] = None


def _shutdown_zygotes() -> None:
    global _ZYGOTES
    if _ZYGOTES is not None and _ZYGOTES.owner == os.getpid():
        _ZYGOTES.shutdown()
        _ZYGOTES = None


def start_zygotes() -> None:
    """Called by the check's setup() in the parent, before workers are forked (they inherit the socket
    paths).  Returns at once; the zygotes import in the background and a node's first connect waits."""
    global _ZYGOTES
    if os.environ.get("VERIF_NODE_MODE") == "spawn":
        return
    if _ZYGOTES is not None and _ZYGOTES.owner == os.getpid():
        return
    _ZYGOTES = Zygotes()
    atexit.register(_shutdown_zygotes)
    try:
        prev = signal.getsignal(signal.SIGTERM)

        def _on_term(signum, frame, _prev=prev):
            _shutdown_pool()
            _shutdown_zygotes()
            if callable(_prev):
                _prev(signum, frame)
            else:
                os._exit(143)

        signal.signal(signal.SIGTERM, _on_term)
    except Exception:  # noqa: BLE001 - not the main thread
        pass


def zygote_mode() -> bool:
    return _ZYGOTES is not None


# -----------------------------------------------------------------------------------------------------
# one node
# -----------------------------------------------------------------------------------------------------
class Node:
    """One interpreter process.  `call` is strictly request/response."""

    def __init__(self, hashseed: int, socket_path: Optional[str] = None):
        self.hashseed = hashseed
        self.socket_path = socket_path
        self.ready = False
        self.dead = False
        self.runs_served = 0
        self.t_started = time.monotonic()
        self.hello = None
        self.pid: Optional[int] = None
        self.proc: Optional[subprocess.Popen] = None
        self.sock: Optional[socket.socket] = None
        self._stderr = None
        if zygote_mode():
            self._connect()
        else:
            self._stderr = tempfile.TemporaryFile(prefix="verif-node-", dir=os.environ.get("TMPDIR") or "/dev/shm")
            self.proc = subprocess.Popen([PYTHON, "-X", "faulthandler", NODE_MAIN], stdin=subprocess.PIPE,
                                         stdout=subprocess.PIPE, stderr=self._stderr, env=_node_env(hashseed),
                                         close_fds=True, cwd=os.path.dirname(NODE_MAIN))
            self._rfd = self.proc.stdout.fileno()
            self._wfd = self.proc.stdin.fileno()

    def _connect(self) -> None:
        z = _ZYGOTES
        path = self.socket_path or z.socket_path(self.hashseed)
        deadline = max(z.t_started, self.t_started) + START_TIMEOUT
        while True:
            s = socket.socket(socket.AF_UNIX, socket.SOCK_STREAM)
            try:
                s.connect(path)
                break
            except (FileNotFoundError, ConnectionRefusedError):
                s.close()
                if not z.alive(self.hashseed) or time.monotonic() > deadline:
                    raise HarnessError(f"zygote for PYTHONHASHSEED={self.hashseed} is not accepting connections\n"
                                       f"--- zygote log (tail) ---\n{z.log_tail(self.hashseed)[-2500:]}") from None
                time.sleep(0.05)
        self.sock = s
        self._rfd = self._wfd = s.fileno()

    # -- low level ----------------------------------------------------------------------------------
    def _stderr_tail(self, n: int = 6000) -> str:
        if self._stderr is None:
            return _ZYGOTES.log_tail(self.hashseed, n) if _ZYGOTES is not None else ""
        try:
            self._stderr.flush()
            size = os.fstat(self._stderr.fileno()).st_size
            self._stderr.seek(max(0, size - n))
            return self._stderr.read().decode("utf-8", "replace")
        except Exception:  # noqa: BLE001
            return ""

    def _died(self, during: str) -> NodeDied:
        self.dead = True
        rc = None
        if self.proc is not None:
            try:
                self.proc.wait(timeout=5)
            except Exception:  # noqa: BLE001
                pass
            rc = self.proc.returncode
        else:
            time.sleep(0.2)   # let the dying process finish writing its traceback to the log
        tail = self._stderr_tail()
        sut = False
        if "Traceback (most recent call last)" in tail:
            root = repoenv.repo_root() + os.sep
            files = [ln.strip() for ln in tail.splitlines() if ln.strip().startswith('File "')]
            sut = bool(files) and files[-1].startswith(f'File "{root}')
        self.kill()
        return NodeDied(f"node (PYTHONHASHSEED={self.hashseed}, pid {self.pid}) died (return code {rc}) during "
                        f"{during}\n--- node stderr (tail) ---\n{tail[-2500:]}", stderr_tail=tail, sut_traceback=sut)

    def _read_exact(self, n: int, deadline: float, during: str) -> bytes:
        buf = bytearray()
        while len(buf) < n:
            remaining = deadline - time.monotonic()
            if remaining <= 0:
                tail = self._stderr_tail()
                self.kill()
                raise HarnessError(f"node (PYTHONHASHSEED={self.hashseed}) did not answer in time during "
                                   f"{during}\n--- node stderr (tail) ---\n{tail[-2500:]}")
            r, _, _ = select.select([self._rfd], [], [], min(remaining, 5.0))
            if not r:
                continue
            try:
                chunk = os.read(self._rfd, min(1 << 20, n - len(buf)))
            except ConnectionResetError:
                chunk = b""
            if not chunk:
                raise self._died(during)
            buf += chunk
        return bytes(buf)

    def _recv(self, timeout: float, during: str):
        deadline = time.monotonic() + timeout
        (n,) = struct.unpack(">I", self._read_exact(4, deadline, during))
        return pickle.loads(self._read_exact(n, deadline, during))

    def _send(self, obj, during: str) -> None:
        data = pickle.dumps(obj, protocol=4)
        data = struct.pack(">I", len(data)) + data
        view = memoryview(data)
        try:
            while view:
                k = os.write(self._wfd, view[:1 << 16])
                view = view[k:]
        except (BrokenPipeError, ConnectionResetError, OSError):
            raise self._died(during) from None

    # -- API -------------------------------------------------------------------------------------------
    def wait_ready(self) -> None:
        if self.ready:
            return
        remaining = max(10.0, START_TIMEOUT - (time.monotonic() - self.t_started))
        self._send({"op": "hello"}, "start-up")
        hello = self._recv(remaining, "start-up (import of the five packages)")
        root = repoenv.repo_root()
        if hello.get("status") != "ok" or hello.get("root") != root \
                or not str(hello.get("cirq_file", "")).startswith(root + os.sep) \
                or str(hello.get("hashseed")) != str(self.hashseed):
            self.kill()
            raise HarnessError(f"node handshake mismatch: {hello!r} (wanted root={root} seed={self.hashseed})")
        self.hello = hello
        self.pid = hello.get("pid")
        self.ready = True

    def call(self, req: dict, timeout: Optional[float] = None) -> dict:
        """Returns the response dict with status 'ok' or 'sut'.  Anything else raises HarnessError."""
        if self.dead:
            raise HarnessError("call on a dead node")
        self.wait_ready()
        during = f"op {req.get('op')!r}"
        try:
            self._send(req, during)
            resp = self._recv(timeout or CALL_TIMEOUT, during)
        except BaseException:
            # a half-finished exchange (timeout signal, keyboard interrupt): the stream is out of step
            if not self.dead:
                self.kill()
            raise
        st = resp.get("status")
        if st in ("ok", "sut"):
            return resp
        raise HarnessError(f"node reported a harness-side error during {during}:\n{resp.get('tb')}")

    def is_alive(self) -> bool:
        if self.dead:
            return False
        if self.proc is not None:
            return self.proc.poll() is None
        return True

    def kill(self) -> None:
        self.dead = True
        if self.proc is not None:
            try:
                if self.proc.poll() is None:
                    self.proc.kill()
            except Exception:  # noqa: BLE001
                pass
            for f in (self.proc.stdin, self.proc.stdout):
                try:
                    f.close()
                except Exception:  # noqa: BLE001
                    pass
            try:
                self.proc.wait(timeout=10)
            except Exception:  # noqa: BLE001
                pass
        else:
            if self.pid:
                try:
                    os.kill(self.pid, signal.SIGKILL)     # reaped by the zygote (SIGCHLD ignored there)
                except (ProcessLookupError, PermissionError):
                    pass
            if self.sock is not None:
                try:
                    self.sock.close()                     # a node that was never greeted exits on EOF
                except Exception:  # noqa: BLE001
                    pass
                self.sock = None
        if self._stderr is not None:
            try:
                self._stderr.close()
            except Exception:  # noqa: BLE001
                pass
            self._stderr = None


# -----------------------------------------------------------------------------------------------------
# the nodes of this process
# -----------------------------------------------------------------------------------------------------
class Pool:
    def __init__(self):
        self.pid = os.getpid()
        self.idle: Dict[int, List[Node]] = {}
        self.in_use: List[Node] = []
        self.started = 0
        self.killed = 0
        self.start_seconds = 0.0
        default_reuse = "0" if zygote_mode() else "1000000"
        self.reuse = int(os.environ.get("VERIF_NODE_REUSE", default_reuse))
        self.sub: Dict[int, Node] = {}       # this process's own fork servers, one per hash seed

    def _sub_zygote_path(self, seed: int) -> str:
        """Forks of one process are serial; fourteen workers each want a few per run.  So every process that
        executes runs asks the per-seed zygote once for a fork that becomes *its* fork server."""
        z = self.sub.get(seed)
        if z is None or z.dead:
            path = os.path.join(_ZYGOTES.dir, f"w{os.getpid()}-{seed}-{len(self.sub)}.sock")
            z = Node(seed)
            z.wait_ready()
            resp = z.call({"op": "zygote", "path": path})
            if resp.get("status") != "ok":
                raise HarnessError(f"could not create a fork server: {resp!r}")
            z.path = path
            self.sub[seed] = z
        return z.path

    def _n_idle(self) -> int:
        return sum(len(v) for v in self.idle.values())

    def _start(self, seed: int) -> Node:
        self.started += 1
        if zygote_mode():
            return Node(seed, self._sub_zygote_path(seed))
        return Node(seed)

    def prestart(self, seeds) -> None:
        """spawn mode only: start cold interpreters without waiting for them."""
        if zygote_mode():
            return
        for s in seeds:
            if self._n_idle() + len(self.in_use) >= MAX_IDLE:
                return
            if not self.idle.get(s) and not any(n.hashseed == s for n in self.in_use):
                self.idle.setdefault(s, []).append(self._start(s))

    def acquire(self, seed: int) -> Node:
        if not self.started:
            self.prestart([s for s in HASH_SEEDS[:3] if s != seed])
        node = None
        lst = self.idle.get(seed) or []
        while lst:
            cand = lst.pop()
            if cand.is_alive():
                node = cand
                break
            cand.kill()
        if node is None:
            node = self._start(seed)
        self.in_use.append(node)
        t0 = time.monotonic()
        node.wait_ready()
        self.start_seconds += time.monotonic() - t0
        if node.runs_served:
            resp = node.call({"op": "reset"})
            if resp.get("status") != "ok":
                raise HarnessError(f"reset failed: {resp!r}")
        return node

    def release(self, node: Node) -> None:
        if node in self.in_use:
            self.in_use.remove(node)
        node.runs_served += 1
        if not node.is_alive() or node.runs_served > self.reuse or self._n_idle() >= MAX_IDLE:
            if not node.dead:
                self.killed += 1
            node.kill()
            return
        self.idle.setdefault(node.hashseed, []).append(node)

    def restart(self, node: Node, new_seed: int) -> Node:
        """Kill `node` for real; the run continues on a node with `new_seed`."""
        old_seed = node.hashseed
        if node in self.in_use:
            self.in_use.remove(node)
        node.kill()
        self.killed += 1
        fresh = self.acquire(new_seed)
        self.prestart([old_seed])
        return fresh

    def shutdown(self) -> None:
        if os.getpid() != self.pid:
            return
        for n in list(self.in_use):
            n.kill()
        self.in_use.clear()
        for lst in self.idle.values():
            for n in lst:
                n.kill()
        self.idle.clear()
        for z in self.sub.values():
            z.kill()
        self.sub.clear()


_POOL: Optional[Pool] = None


def _shutdown_pool() -> None:
    global _POOL
    if _POOL is not None:
        _POOL.shutdown()
        _POOL = None


def pool() -> Pool:
    """The pool of *this* process (created lazily; a forked child never reuses its parent's nodes)."""
    global _POOL
    if _POOL is None or _POOL.pid != os.getpid():
        _POOL = Pool()
        atexit.register(_shutdown_pool)
        try:
            # forked multiprocessing workers leave through os._exit(): atexit does not run there, but
            # multiprocessing's own finalizers do
            from multiprocessing import util as _mpu
            _mpu.Finalize(None, _shutdown_pool, exitpriority=100)
        except Exception:  # noqa: BLE001
            pass
    return _POOL
