"""Simulator core shared by E1 (duet), E2 (asyncio) and E3 (model server).

A `Sim` owns the virtual clock, the tape and a list of *event sources*.  An
event source is an object with `enabled() -> list[(label, callable)]`: the
things that could happen next "by themselves" in production (a job finishing, a
reply arriving, the asyncio thread running one callback, the user pressing
cancel, a timer elapsing).  Whenever the code under test is quiescent -- and,
with a tape-chosen probability, also between its steps -- the simulator asks
every source what is enabled, lets the tape pick one, and fires it.  That is
the only place where anything nondeterministic is decided.

Time: there is no real clock.  "Advance the clock to the next timer" is itself
an enabled event whenever a timer exists, so a timeout can race any other
event; when nothing else is enabled it is the only choice and the clock jumps,
which is how minutes of back-off cost microseconds.
"""
from __future__ import annotations

from typing import Callable, List, Optional, Tuple

from simkit.core import Ctx, HarnessError, StepCapExceeded, Violation

Event = Tuple[str, Callable[[], None]]


class Deadlock(Exception):
    """Nothing is ready and nothing can happen any more."""


class SimHang(Exception):
    """The code under test waits for something that can never happen (raised out of
    the blocked duet.run / future.result call; the check turns it into a violation)."""


class Sim:
    def __init__(self, tape, ctx: Ctx, max_steps: int = 3000, extra_num: int = 1, extra_den: int = 4):
        self.tape = tape
        self.ctx = ctx
        self.now = 1_000_000.0   # virtual epoch seconds
        self.t0 = self.now
        self.steps = 0
        self.max_steps = max_steps
        self.sources: List = []
        self.timer_sources: List = []   # objects with next_timer() -> Optional[float]
        self.fair = False               # fair phase: oldest-enabled-first instead of tape choice
        self.fault_prefixes = ("break", "cancel:", "stop", "fault:")
        self.fault_den = 8
        self.clock_den = 6
        self._since = {}                # fair phase: label -> step at which it became enabled
        self.extra = (extra_num, extra_den)
        self.on_step: Optional[Callable[[str], None]] = None
        self.on_quiescent: Optional[Callable[[], None]] = None   # invariant hook: duet side is idle
        self.aborted = None             # set once the simulator gave up on this run
        self.schedulers: List = []      # live SimSchedulers (E1)

    # -- registration --------------------------------------------------------------------------
    def add_source(self, src) -> None:
        self.sources.append(src)

    def add_timer_source(self, src) -> None:
        self.timer_sources.append(src)

    def describe_hang(self, who=None) -> str:
        return f"quiescent with nothing enabled after {self.steps} steps at t=+{self.now - self.t0:.3f}s"

    # -- stepping ------------------------------------------------------------------------------
    def enabled(self) -> List[Event]:
        evs: List[Event] = []
        for s in self.sources:
            evs.extend(s.enabled())
        return evs

    def next_timer(self) -> Optional[float]:
        best = None
        for s in self.timer_sources:
            t = s.next_timer()
            if t is not None and (best is None or t < best):
                best = t
        return best

    def _count(self) -> None:
        self.steps += 1
        self.ctx.steps += 1
        if self.steps > self.max_steps:
            raise StepCapExceeded(f"step cap {self.max_steps} exceeded")

    def fire_one(self, allow_time: bool = True) -> str:
        """Fire one enabled event (or advance the clock).  Raises Deadlock if none."""
        evs = self.enabled()
        t = self.next_timer() if allow_time else None
        n = len(evs) + (1 if t is not None else 0)
        if n == 0:
            raise Deadlock()
        self._count()
        if self.fair:
            # oldest-enabled-first: every continuously enabled event is taken after at most
            # (number of enabled events) steps; the clock only moves when nothing else can
            if evs:
                live = {lab for lab, _ in evs}
                for lab in list(self._since):
                    if lab not in live:
                        del self._since[lab]
                for lab in live:
                    if lab not in self._since:
                        self._since[lab] = self.steps
                k = min(range(len(evs)), key=lambda i: (self._since[evs[i][0]], i))
                del self._since[evs[k][0]]
            else:
                k = len(evs)
        else:
            # Faults (labels with a fault prefix) are always enabled while budget remains; drawn
            # uniformly with everything else they would nearly always fire before the workload has
            # created any in-flight state.  So: first decide *whether* a fault happens now
            # (1 in fault_den), then which event of that class.
            fidx = [i for i, (lab, _) in enumerate(evs) if lab.startswith(self.fault_prefixes)]
            if evs and t is not None and not self.tape.chance(1, self.clock_den, "clock?"):
                # time passes (a timer elapses before anything else happens) only now and then;
                # otherwise polling loops would mostly watch the clock run out
                n = len(evs)
                t = None
            if fidx and len(fidx) < n:
                if self.tape.chance(1, self.fault_den, "fault?"):
                    k = fidx[self.tape.draw(len(fidx), "which-fault")]
                else:
                    rest = [i for i in range(n) if i not in set(fidx)]
                    k = rest[self.tape.draw(len(rest), "event")]
            else:
                k = self.tape.draw(n, "event")
        if k < len(evs):
            label, fn = evs[k]
            self.ctx.decide(label)
            fn()
        else:
            label = "clock"
            self.advance_clock(t)
        if self.on_step is not None:
            self.on_step(label)
        return label

    def advance_clock(self, t: float) -> None:
        # land slightly past the timer: duet's tick spins when now == deadline exactly
        new = max(self.now, t + 1e-6)
        self.ctx.decide("clock", round(new - self.t0, 6))
        self.ctx.sim_time += new - self.now
        self.now = new

    def maybe_extra_events(self) -> None:
        """Between two steps of the code under test: let other things happen first."""
        if self.fair:
            return
        num, den = self.extra
        for _ in range(8):
            evs = self.enabled()
            if not evs:
                return
            if not self.tape.chance(num, den, "extra?"):
                return
            self._count()
            label, fn = evs[self.tape.draw(len(evs), "extra")]
            self.ctx.decide(label)
            fn()
            if self.on_step is not None:
                self.on_step(label)
