"""Tape-driven circuit generator shared by C02 / C09 / C13.

Everything is drawn from the tape; smaller draws give simpler circuits (fewer
qudits, fewer operations, plain gates), so shrunk tapes read as small circuits.
The generator keeps a running bound on the size of the simulator's branch tree
(`leaf_bits`, log2 of the number of equiprobable-or-not outcomes) so that the
tree can be enumerated exhaustively.
"""
from __future__ import annotations

import math
from typing import Dict, List, Optional, Sequence, Tuple

import numpy as np
import sympy

import cirq

EIGHTHS = [1, 2, 3, 4, 5, 6, 7, 8, 9, 12, -1, -2, -3, -4]          # multiples of pi/8
EXPONENTS = [1, 0.5, 0.25, -0.5, -0.25, 1.5, 2.25, 0, 2, -1.75]


class NoisyGate(cirq.Gate):
    """A user gate defined only by its decomposition: some unitaries followed by an error channel (and
    optionally one more unitary).  It has no _unitary_, _kraus_ or _apply_channel_ of its own."""

    _verif_composite_ = True

    def __init__(self, unitaries, channel, tail=None):
        self.unitaries, self.channel, self.tail = tuple(unitaries), channel, tail

    def _num_qubits_(self) -> int:
        return 1

    def _decompose_(self, qubits):
        for u in self.unitaries:
            yield u.on(*qubits)
        yield self.channel.on(*qubits)
        if self.tail is not None:
            yield self.tail.on(*qubits)

    def __repr__(self) -> str:
        return f"NoisyGate({self.unitaries!r}, {self.channel!r}, {self.tail!r})"

    def _value_equality_values_(self):
        return (self.unitaries, self.channel, self.tail)


class Gen:
    def __init__(self, tape, *, max_qudits=4, allow_qudits=True, clifford_only=False,
                 allow_measure=True, allow_control=True, allow_channels=False, allow_reset=True,
                 allow_pauli_measure=True, keyed_channels=True, max_ops=10, leaf_bits_cap=8.0,
                 allow_subcircuits=False):
        self.allow_subcircuits = allow_subcircuits and allow_measure
        self.channel_pool: List = []             # channel gate objects that may be applied again
        self.allow_qubitless = False            # set by a workload that can drive a circuit without qubits
        self.product_clifford_gates = False     # set by a workload that routes such circuits to general simulators
        self.t = tape
        self.clifford_only = clifford_only
        self.allow_measure = allow_measure
        self.allow_control = allow_control and allow_measure
        self.allow_channels = allow_channels
        self.allow_reset = allow_reset
        self.allow_pauli_measure = allow_pauli_measure
        self.keyed_channels = keyed_channels
        self.max_ops = max_ops
        self.cap = leaf_bits_cap
        n = 1 + tape.weighted([3, 5, 4, 2, 1, 1][:max_qudits], "n-qudits")
        self.qudits: List[cirq.Qid] = []
        for i in range(n):
            if allow_qudits and not clifford_only and tape.chance(1, 7, "qutrit?"):
                self.qudits.append(cirq.LineQid(i, dimension=3))
            else:
                self.qudits.append(cirq.LineQubit(i))
        self.key_dims: Dict[str, Tuple[int, ...]] = {}     # key -> dims of its records
        self.key_instances: Dict[str, int] = {}
        self.leaf_bits = 0.0                                 # per repetition
        self.kinds: List[str] = []
        self.has_nonunitary_channel = False
        self.features = set()
        self.channel_keys = set()

    # -- helpers --------------------------------------------------------------------------------------
    def qubits_only(self) -> List[cirq.Qid]:
        return [q for q in self.qudits if q.dimension == 2]

    def _pick(self, seq, label):
        return seq[self.t.draw(len(seq), label)]

    def _pick_distinct(self, seq, k, label):
        pool = list(seq)
        out = []
        for _ in range(k):
            out.append(pool.pop(self.t.draw(len(pool), label)))
        return out

    def _unitary_matrix(self, dim: int) -> np.ndarray:
        """A tape-drawn unitary of the given dimension (QR of a small-integer complex matrix)."""
        vals = [self.t.draw(7, "mat") - 3 for _ in range(2 * dim * dim)]
        m = np.array(vals[: dim * dim], dtype=float).reshape(dim, dim) + \
            1j * np.array(vals[dim * dim:], dtype=float).reshape(dim, dim)
        m = m + np.eye(dim) * 4.5
        q, r = np.linalg.qr(m)
        d = np.diag(r)
        return q * (d / np.abs(d))

    # -- operation kinds ------------------------------------------------------------------------------
    def single(self) -> Optional[cirq.Operation]:
        q = self._pick(self.qudits, "q")
        if q.dimension != 2:
            self.features.add("qutrit-gate")
            if self.t.chance(1, 2, "qutrit-x?"):
                return cirq.XPowGate(dimension=3).on(q) ** self._pick([1, 2], "x3-exp")
            return cirq.MatrixGate(self._unitary_matrix(3), qid_shape=(3,)).on(q)
        if self.clifford_only:
            g = self._pick([cirq.H, cirq.X, cirq.Y, cirq.Z, cirq.S, cirq.X ** 0.5, cirq.Y ** 0.5, cirq.Z ** -0.5,
                            cirq.X ** -0.5, cirq.Y ** -0.5, cirq.S ** -1], "clifford-1q")
            return g.on(q)
        kind = self.t.weighted([4, 2, 2, 2, 1, 1], "1q-kind")
        if kind == 0:
            return cirq.ry(math.pi / 8 * self._pick(EIGHTHS, "angle")).on(q)
        if kind == 1:
            return cirq.H.on(q)
        if kind == 2:
            return (self._pick([cirq.X, cirq.Y, cirq.Z], "pauli") ** self._pick(EXPONENTS, "exp")).on(q)
        if kind == 3:
            return cirq.rx(math.pi / 8 * self._pick(EIGHTHS, "angle")).on(q)
        if kind == 4:
            return cirq.PhasedXZGate(x_exponent=self._pick(EXPONENTS, "exp"), z_exponent=self._pick(EXPONENTS, "exp"),
                                     axis_phase_exponent=self._pick(EXPONENTS, "exp")).on(q)
        self.features.add("matrix-gate")
        return cirq.MatrixGate(self._unitary_matrix(2)).on(q)

    def entangled_swap(self):
        """An entangled pair, something visible on one of its qubits, then a full SWAP of the pair: the product-state
        simulators relabel the two axes of the joint state instead of moving amplitudes."""
        qs2 = self.qubits_only()
        if len(qs2) < 2:
            return None
        a, b = self._pick_distinct(qs2, 2, "es-q")
        ops = [cirq.CNOT(a, b) if self.clifford_only or self.t.chance(1, 2, "es-cnot?") else cirq.CZ(a, b) ** 0.5]
        ops.append((cirq.X if self.clifford_only else cirq.ry(math.pi / 8 * self._pick(EIGHTHS, "angle"))).on(a))
        if self.allow_measure and self.leaf_bits + 1 <= self.cap and self.t.chance(1, 2, "es-measure?"):
            key = self._pick(["a", "b", "c"], "key")
            if self.key_dims.get(key, (2,)) == (2,) and key not in self.channel_keys:
                if key in self.key_dims:
                    self.features.add("repeated-key")
                self.key_dims[key] = (2,)
                self.key_instances[key] = self.key_instances.get(key, 0) + 1
                self.leaf_bits += 1
                ops.append(cirq.measure(a, key=key))
        ops.append(cirq.SWAP(a, b) if self.t.chance(2, 3, "es-order?") else cirq.SWAP(b, a))
        self.features.add("swap-inside-entangled-block")
        return ops

    def global_phase(self) -> Optional[cirq.Operation]:
        """An operation on no qubits: a phase factor for the state vector, nothing for a density matrix."""
        self.features.add("global-phase-op")
        if self.clifford_only:
            return cirq.global_phase_operation(self._pick([1j, -1, -1j], "phase"))
        return cirq.global_phase_operation(self._pick([1j, -1, np.exp(0.25j * np.pi), np.exp(-0.3j)], "phase"))

    def double(self) -> Optional[cirq.Operation]:
        if len(self.qudits) < 2:
            return self.single()
        a, b = self._pick_distinct(self.qudits, 2, "q2")
        if a.dimension != 2 or b.dimension != 2:
            self.features.add("qudit-2q-gate")
            dim = a.dimension * b.dimension
            return cirq.MatrixGate(self._unitary_matrix(dim), qid_shape=(a.dimension, b.dimension)).on(a, b)
        if self.clifford_only:
            if self.product_clifford_gates and self.t.chance(1, 10, "clifford-only-as-product-gate?"):
                # a gate whose matrix is Clifford while the pieces it decomposes into are not (T-like phases
                # around an ISWAP): not something a stabilizer simulator can run
                self.features.add("clifford-only-as-product")
                which = self.t.draw(3, "product-gate")
                if which == 1:
                    # a Clifford matrix given as a matrix: only its (non-Clifford) synthesis is available to a simulator
                    m = cirq.unitary(self._pick([cirq.CZ, cirq.CNOT, cirq.ISWAP], "matrix-of"))
                    return cirq.MatrixGate(m).on(a, b)
                if which == 2 and len(self.qudits) >= 3:
                    third = self._pick([x for x in self.qudits if x not in (a, b)], "q3")
                    return cirq.ControlledGate(cirq.SWAP ** 2).on(third, a, b)
                return cirq.PhasedISwapPowGate(phase_exponent=self._pick([0.25, -0.25, 0.75], "pisw-phase"),
                                               exponent=self._pick([1, -1, 3], "pisw-exp")).on(a, b)
            g = self._pick([cirq.CNOT, cirq.CZ, cirq.SWAP, cirq.ISWAP, cirq.ISWAP ** -1], "clifford-2q")
            return g.on(a, b)
        kind = self.t.weighted([4, 3, 2, 2, 1], "2q-kind")
        if kind == 0:
            return cirq.CNOT.on(a, b)
        if kind == 1:
            return (cirq.CZ ** self._pick(EXPONENTS, "exp")).on(a, b)
        if kind == 2:
            return (cirq.ISWAP ** self._pick(EXPONENTS, "exp")).on(a, b)
        if kind == 3:
            # SWAP**odd integer is a pure relabelling (the product-state simulators take a shortcut for
            # it); other powers entangle, and a global shift makes even the odd powers more than a relabelling
            form = self.t.weighted([5, 3, 1], "swap-form")
            if form == 0:
                return cirq.SWAP.on(a, b)
            self.features.add("swap-power")
            if form == 1:
                return (cirq.SWAP ** self._pick([0.75, 1.25, 3, -1, 0.5, -0.75, 2, 1.5, 0.875, 1.125], "swap-exp")).on(a, b)
            return cirq.SwapPowGate(exponent=self._pick([1, 3, 0.75], "swap-exp"),
                                    global_shift=self._pick([0.5, -0.25], "swap-shift")).on(a, b)
        return (cirq.CNOT ** self._pick(EXPONENTS, "exp")).on(a, b)

    def _confusion(self, dims: Sequence[int]) -> Tuple[np.ndarray, float]:
        """Row-stochastic matrix with entries in eighths."""
        n = int(np.prod(dims))
        rows = []
        for r in range(n):
            stay = self._pick([6, 7, 4, 8, 5], "conf-stay")
            other = (r + 1 + self.t.draw(max(1, n - 1), "conf-to")) % n if n > 1 else r
            row = [0.0] * n
            row[r] += stay / 8
            row[other] += (8 - stay) / 8
            rows.append(row)
        return np.array(rows), 1.0   # at most two columns per row -> 1 bit

    def measure(self) -> Optional[cirq.Operation]:
        keys = ["a", "b", "c"]
        key = self._pick(keys, "key")
        if key in self.key_dims:
            dims = self.key_dims[key]
            # same shape as before: pick qudits with matching dimensions
            pool = list(self.qudits)
            qs = []
            for d in dims:
                cand = [q for q in pool if q.dimension == d]
                if not cand:
                    return None
                q = cand[self.t.draw(len(cand), "mq")]
                pool.remove(q)
                qs.append(q)
        else:
            k = 1 + self.t.weighted([5, 3, 1][:len(self.qudits)], "m-width")
            qs = self._pick_distinct(self.qudits, k, "mq")
            dims = tuple(q.dimension for q in qs)
        bits = sum(math.log2(d) for d in dims)
        # invert masks only on qubits: "flipping" a qudit digit is not defined by the documentation
        # (the simulators flip digits 0/1 only; Circuit._has_unitary_ rejects X on a qudit)
        invert = (tuple(bool(self.t.draw(2, "invert")) and q.dimension == 2 for q in qs)
                  if self.t.chance(1, 3, "invert?") else ())
        if not any(invert):
            invert = ()
        cmap = None
        if self.t.chance(1, 4, "confusion?"):
            self.features.add("confusion")
            if len(qs) >= 2 and self.t.chance(1, 3, "confusion-2q?"):
                i, j = self._pick_distinct(list(range(len(qs))), 2, "conf-idx")
                mat, cb = self._confusion([dims[i], dims[j]])
                cmap = {(i, j): mat}
                self.features.add("confusion-2q")
            else:
                i = self.t.draw(len(qs), "conf-idx")
                mat, cb = self._confusion([dims[i]])
                cmap = {(i,): mat}
            bits += cb
            if len(qs) >= 2 and self.t.chance(1, 3, "confusion-second-group?"):
                # a second index group: disjoint from the first, or sharing an index with it (each matrix
                # reads the measured digits; where two write the same digit the later group wins)
                (first,) = cmap
                others = [x for x in range(len(qs)) if x not in first]
                if others and self.t.chance(1, 2, "disjoint?"):
                    j2 = self._pick(others, "conf-idx2")
                    mat2, cb2 = self._confusion([dims[j2]])
                    cmap[(j2,)] = mat2
                    self.features.add("confusion-two-groups")
                elif len(first) == 1 and others:
                    j2 = self._pick(others, "conf-idx2")
                    grp = (first[0], j2) if self.t.chance(1, 2, "conf-order?") else (j2, first[0])
                    mat2, cb2 = self._confusion([dims[x] for x in grp])
                    cmap[grp] = mat2
                    self.features.add("confusion-overlapping-groups")
                else:
                    i2 = first[self.t.draw(len(first), "conf-idx2")]
                    mat2, cb2 = self._confusion([dims[i2]])
                    cmap[(i2,)] = mat2
                    self.features.add("confusion-overlapping-groups")
                bits += cb2
        if self.leaf_bits + bits > self.cap:
            return None
        self.leaf_bits += bits
        if key in self.key_dims:
            self.features.add("repeated-key")
        self.key_dims[key] = dims
        self.key_instances[key] = self.key_instances.get(key, 0) + 1
        if any(d != 2 for d in dims):
            self.features.add("qudit-measure")
        if invert:
            self.features.add("invert-mask")
        if invert and cmap:
            self.features.add("invert+confusion")
        return cirq.measure(*qs, key=key, invert_mask=invert, confusion_map=cmap)

    def pauli_measure(self) -> Optional[cirq.Operation]:
        qs2 = self.qubits_only()
        if not qs2:
            return None
        key = self._pick(["p", "a", "b"], "pkey")
        if key in self.key_dims and self.key_dims[key] != (2,):
            return None
        k = 1 + self.t.weighted([3, 2][:len(qs2)], "p-width")
        qs = self._pick_distinct(qs2, k, "pq")
        paulis = [self._pick([cirq.X, cirq.Y, cirq.Z], "pauli") for _ in qs]
        neg = self.t.chance(1, 4, "neg-obs?")
        if self.leaf_bits + 1 > self.cap:
            return None
        self.leaf_bits += 1
        if key in self.key_dims:
            self.features.add("repeated-key")
        self.key_dims[key] = (2,)
        self.key_instances[key] = self.key_instances.get(key, 0) + 1
        self.features.add("pauli-measure")
        obs = cirq.DensePauliString(paulis, coefficient=-1 if neg else 1)
        return cirq.PauliMeasurementGate(obs, key=key).on(*qs)

    def controlled(self) -> Optional[cirq.Operation]:
        if not self.key_dims:
            return None
        key = self._pick(sorted(self.key_dims), "ckey")
        dims = self.key_dims[key]
        base = self.single() if self.t.chance(2, 3, "c-1q?") else self.double()
        if base is None:
            return None
        has_path = ":" in key
        mkey = cirq.MeasurementKey.parse_serialized(key)
        kind = self.t.weighted([4, 2, 0 if has_path else 2, 2 if all(d == 2 for d in dims) else 0], "cond-kind")
        maxval = int(np.prod(dims))
        if kind == 0:
            cond = cirq.KeyCondition(mkey)
        elif kind == 1:
            idx = self.t.draw(self.key_instances[key], "cond-index")
            if self.t.chance(1, 2, "neg-index?"):
                idx = idx - self.key_instances[key]
            cond = cirq.KeyCondition(mkey, index=idx)
            self.features.add("indexed-condition")
        elif kind == 2:
            sym = sympy.Symbol(key)
            v = self.t.draw(maxval, "cond-val")
            form = self.t.weighted([4, 2, 3], "sympy-form")
            others = [k for k in sorted(self.key_dims) if k != key and ":" not in k]
            if form == 1 and others:
                # an expression over two keys
                k2 = self._pick(others, "ckey2")
                sym2 = sympy.Symbol(k2)
                cond = cirq.SympyCondition([sym + sym2 >= max(1, v), sym > sym2, sympy.Eq(sym, sym2),
                                            sym * 2 + sym2 < 3][self.t.draw(4, "rel2")])
                self.features.add("sympy-two-keys")
            elif form == 2 and all(d == 2 for d in dims):
                # bitwise condition on individual (big-endian) bits of the record
                ibase = sympy.IndexedBase(key)
                i = self.t.draw(len(dims), "bit-i")
                j = self.t.draw(len(dims), "bit-j")
                forms = [ibase[i]] + ([sympy.Xor(ibase[i], ibase[j])] if i != j else [])
                cond = cirq.SympyCondition(forms[self.t.draw(len(forms), "bit-form")])
                self.features.add("sympy-indexed-bits")
            else:
                cond = cirq.SympyCondition([sympy.Eq(sym, v), sym >= v, sym < max(1, v), sympy.Ne(sym, v)][self.t.draw(4, "rel")])
            self.features.add("sympy-condition")
        else:
            tv = self.t.draw(maxval, "bm-target")
            bm = self.t.draw(maxval, "bm-mask") if self.t.chance(1, 2, "bm-mask?") else None
            cond = cirq.BitMaskKeyCondition(mkey, index=-1, target_value=tv, equal_target=bool(self.t.draw(2, "bm-eq")),
                                            bitmask=bm)
            self.features.add("bitmask-condition")
        self.features.add("classical-control")
        api = self.t.weighted([6, 2, 1, 1], "control-api")
        if api == 0 or not hasattr(cirq, "If"):
            return base.with_classical_controls(cond)
        # cirq.If(condition, operation, *more): the same semantics spelled through the If operation, with the
        # condition given in any of the accepted forms
        self.features.add("if-op")
        raw = cond
        if isinstance(cond, cirq.KeyCondition) and cond.index == -1 and self.t.chance(1, 2, "raw-cond?"):
            raw = key if self.t.chance(1, 2, "raw-str?") else mkey
        elif isinstance(cond, cirq.SympyCondition) and self.t.chance(1, 2, "raw-cond?"):
            raw = cond.expr
        if api == 1:
            return cirq.If(raw, base)
        if api == 2:
            # a body of two operations runs as one sub-circuit under the condition
            second = self.single()
            if second is None:
                return cirq.If(raw, base)
            self.features.add("if-op-body")
            return cirq.If(raw, base, second)
        # two conditions: both must hold; nesting an If in an If flattens to the same thing
        key2 = self._pick(sorted(self.key_dims), "ckey-b")
        cond2 = cirq.KeyCondition(cirq.MeasurementKey.parse_serialized(key2))
        self.features.add("if-op-two-conditions")
        if self.t.chance(1, 2, "nested-if?"):
            return cirq.If(raw, cirq.If(cond2, base))
        return cirq.If([raw, cond2], base)

    def nested_subcircuit(self) -> Optional[cirq.Operation]:
        """A sub-circuit that measures a key and contains another sub-circuit whose operations (and, in one
        variant, the inner sub-circuit as a whole) are conditioned on that key: the condition must follow the
        enclosing repetition's measurement through both levels of qubit maps, key maps and repetition ids."""
        qs2 = self.qubits_only()
        if len(qs2) < 2 or not self.allow_control:
            return None
        o0, o1 = self._pick_distinct(qs2, 2, "nest-q")
        s0, s1, t0 = cirq.NamedQubit("s0"), cirq.NamedQubit("s1"), cirq.NamedQubit("t0")
        # the enclosing sub-circuit's key: sometimes a name that the top level has measured as well (shadowing)
        shadow = [kk for kk, dd in self.key_dims.items() if ":" not in kk and dd == (2,) and kk in ("a", "b", "c")]
        lk = self._pick(shadow, "nest-key") if (shadow and self.t.chance(1, 2, "nest-shadow?")) else "u"
        reps_o = 1 + self.t.draw(2, "nest-reps-outer")
        ids_o = reps_o >= 2 and self.t.chance(2, 3, "nest-ids-outer?")
        reps_i = 1 + self.t.draw(2, "nest-reps-inner")
        controlled_whole = self.t.chance(1, 2, "nest-controlled-circuitop?")
        ids_i = reps_i >= 2 and self.t.chance(1, 2, "nest-ids-inner?")
        # the deepest key path the motif has: both levels repeat with repetition ids and the innermost
        # measurement (with a readout-error matrix) is re-keyed once per level
        deep = (not self.clifford_only) and self.t.chance(1, 4, "nest-deep-path?")
        if deep:
            reps_o = reps_i = 2
            ids_o = ids_i = True
            controlled_whole = False
        kmap_o = {lk: self._pick(["m", "n"], "nest-mapped")} if self.t.chance(1, 3, "nest-keymap-outer?") else {}
        mk = cirq.MeasurementKey(lk)
        cond = [cirq.KeyCondition(mk), cirq.KeyCondition(mk, index=0),
                cirq.BitMaskKeyCondition(mk, index=-1, target_value=1, equal_target=False, bitmask=1),
                cirq.SympyCondition(sympy.Eq(sympy.Symbol(lk), 0))][self.t.draw(4, "nest-cond")]
        gate = (self._pick([cirq.X, cirq.Z, cirq.H], "nest-gate") if self.clifford_only
                else self._pick([cirq.X, cirq.Y ** 0.5, cirq.H], "nest-gate"))
        inner_ops = [gate.on(t0).with_classical_controls(cond)]
        inner_meas = ((not controlled_whole) and self.t.chance(1, 2, "nest-inner-measure?")) or deep
        kmap_i = {}
        inner_conf = False
        if inner_meas:
            # a readout-error matrix on the innermost measurement: it has to survive being re-keyed once per
            # enclosing level (key map, repetition id)
            cmap_i = None
            if deep or (not self.clifford_only and self.t.chance(1, 2, "nest-inner-confusion?")):
                if deep or self.t.chance(1, 2, "nest-inner-confusion-flip?"):
                    mat_i = np.array([[0.0, 1.0], [1.0, 0.0]])    # every reading reported wrongly: no extra branch
                else:
                    mat_i, _ = self._confusion([2])
                    inner_conf = True
                cmap_i = {(0,): mat_i}
            inner_ops.append(cirq.measure(t0, key="v", confusion_map=cmap_i))
            if self.t.chance(1, 2, "nest-keymap-inner?"):
                kmap_i = {"v": "w"}
        inner = cirq.CircuitOperation(cirq.FrozenCircuit(inner_ops), repetitions=reps_i,
                                      qubit_map={t0: [s0, s1][self.t.draw(2, "nest-inner-on")]},
                                      measurement_key_map=kmap_i, use_repetition_ids=ids_i)
        inner_op = inner.with_classical_controls(lk) if controlled_whole else inner
        pre = (cirq.H if self.clifford_only else cirq.ry(math.pi / 8 * self._pick(EIGHTHS, "angle"))).on(s0)
        body = [pre, cirq.measure(s0, key=lk), inner_op]
        if self.t.chance(1, 2, "nest-tail?"):
            body.append((cirq.H if self.clifford_only else cirq.ry(math.pi / 8 * self._pick(EIGHTHS, "angle"))).on(s1))
        bits = reps_o * (1 + (reps_i * (2 if inner_conf else 1) if inner_meas else 0))
        if self.leaf_bits + bits > self.cap:
            return None
        # names the records end up under, from the documented meaning of the maps, ids and nesting
        planned = {}
        for i in range(reps_o):
            po = (str(i),) if ids_o else ()
            name = ":".join(po + (kmap_o.get(lk, lk),))
            planned[name] = planned.get(name, 0) + 1
            if inner_meas:
                for j in range(reps_i):
                    pi = (str(j),) if ids_i else ()
                    vn = kmap_i.get("v", "v")
                    name = ":".join(po + pi + (kmap_o.get(vn, vn),))
                    planned[name] = planned.get(name, 0) + 1
        for name in planned:
            if (name in self.key_dims and self.key_dims[name] != (2,)) or name in self.channel_keys:
                return None
        self.leaf_bits += bits
        for name, cnt in planned.items():
            if name in self.key_dims:
                self.features.add("repeated-key")
            self.key_dims[name] = (2,)
            self.key_instances[name] = self.key_instances.get(name, 0) + cnt
        self.features.update({"subcircuit", "nested-subcircuit", "classical-control"})
        if inner_meas and cmap_i is not None:
            self.features.update({"confusion", "nested-subcircuit-confusion"})
        if controlled_whole:
            self.features.add("controlled-circuit-operation")
        if lk != "u":
            self.features.add("nested-subcircuit-shadowing-key")
        return cirq.CircuitOperation(cirq.FrozenCircuit(body), repetitions=reps_o, qubit_map={s0: o0, s1: o1},
                                     measurement_key_map=kmap_o, use_repetition_ids=ids_o)

    def two_key_subcircuit(self) -> Optional[cirq.Operation]:
        """A sub-circuit that measures two keys and acts on a condition over both, under a key map that may
        rename the two crosswise."""
        qs2 = self.qubits_only()
        if len(qs2) < 2 or self.leaf_bits + 2 > self.cap or not self.allow_control:
            return None
        if any(k in self.key_dims or k in self.channel_keys for k in ("u", "v")):
            return None
        o0, o1 = self._pick_distinct(qs2, 2, "sub-q")
        s0, s1 = cirq.NamedQubit("s0"), cirq.NamedQubit("s1")
        rot = (lambda q: cirq.H(q)) if self.clifford_only else (
            lambda q: cirq.ry(math.pi / 8 * self._pick(EIGHTHS, "angle")).on(q))
        su, sv = sympy.Symbol("u"), sympy.Symbol("v")
        cond = cirq.SympyCondition([su > sv, su < sv, sympy.Eq(su + 1, sv)][self.t.draw(3, "rel2")])
        gate = self._pick([cirq.X, cirq.Z, cirq.H], "sub-cl")
        body = [rot(s0), rot(s1), cirq.measure(s0, key="u"), cirq.measure(s1, key="v"),
                gate.on([s0, s1][self.t.draw(2, "sub-qi")]).with_classical_controls(cond)]
        kmap = {"u": "v", "v": "u"} if self.t.chance(1, 2, "sub-keymap-swap?") else {}
        self.leaf_bits += 2
        for name in ("u", "v"):
            self.key_dims[name] = (2,)
            self.key_instances[name] = 1
        self.features.update({"subcircuit", "classical-control", "subcircuit-control-two-local-keys"})
        if kmap:
            self.features.update({"subcircuit-key-map", "subcircuit-key-map-swap"})
        return cirq.CircuitOperation(cirq.FrozenCircuit(body), qubit_map={s0: o0, s1: o1}, measurement_key_map=kmap)

    def subcircuit(self) -> Optional[cirq.Operation]:
        if self.allow_control and self.t.chance(1, 5, "nested?"):
            return self.nested_subcircuit()
        if self.allow_control and self.t.chance(1, 6, "two-key-condition?"):
            return self.two_key_subcircuit()
        """A CircuitOperation around a tiny sub-circuit (unitaries and measurements), with tape-drawn
        repetitions, qubit map, measurement-key map and repetition ids.  The keys it records under are
        computed here from the documented meaning of those arguments."""
        qs2 = self.qubits_only()
        if not qs2:
            return None
        k = 1 + self.t.draw(min(2, len(qs2)), "sub-width")
        inner = [cirq.NamedQubit(f"s{i}") for i in range(k)]
        outer = self._pick_distinct(qs2, k, "sub-q")
        ops = []
        local_keys = {}
        n_sub = 1 + self.t.draw(3, "sub-ops")
        bits = 0.0
        outer_refs = set()
        if self.clifford_only and self.t.chance(1, 5, "sub-clifford-as-product?"):
            # rotations that are not Clifford one by one but whose product is: the sub-circuit as a whole is a
            # stabilizer operation, its contents are not (so a stabilizer simulator cannot run it, and
            # whoever picks a simulator from has_stabilizer_effect must not pick one)
            a = self._pick([1, 3, 5, -1], "split-angle")
            tot = self._pick([4, 8, 12, 0], "split-total")
            q = inner[0]
            ops = [cirq.ry(math.pi / 8 * a).on(q), cirq.ry(math.pi / 8 * (tot - a)).on(q)]
            self.features.add("subcircuit")
            self.features.add("clifford-only-as-product")
            return cirq.CircuitOperation(cirq.FrozenCircuit(ops), repetitions=1 + self.t.draw(2, "sub-reps"),
                                         qubit_map={q: outer[0]})
        for _ in range(n_sub):
            can_ctl = self.allow_control and bool(local_keys or any(
                ":" not in kk and kk not in ("u", "v") and len(dd) == 1 and dd[0] == 2
                for kk, dd in self.key_dims.items()))
            kind = self.t.weighted([3, 2, 3, 2, 3 if can_ctl else 0], "sub-kind")
            q = inner[self.t.draw(k, "sub-qi")]
            if kind == 4:
                # an operation inside the sub-circuit conditioned on a key the sub-circuit measured earlier
                # (mapped and scoped together with that measurement) or on a key of the enclosing circuit
                base = (self._pick([cirq.X, cirq.Z, cirq.H], "sub-cl") if self.clifford_only
                        else self._pick([cirq.X, cirq.Y ** 0.5, cirq.Z, cirq.H], "sub-cgate")).on(q)
                outer_pool = sorted(kk for kk, dd in self.key_dims.items()
                                    if ":" not in kk and kk not in ("u", "v") and len(dd) == 1 and dd[0] == 2)
                if local_keys and (not outer_pool or self.t.chance(2, 3, "ctl-local?")):
                    ck = self._pick(sorted(local_keys), "ctl-key")
                    self.features.add("subcircuit-control-local-key")
                else:
                    ck = self._pick(outer_pool, "ctl-key")
                    outer_refs.add(ck)
                    self.features.add("subcircuit-control-outer-key")
                mk = cirq.MeasurementKey(ck)
                form = self.t.draw(7, "ctl-form")
                if len(local_keys) == 2 and self.t.chance(1, 2, "ctl-two-keys?"):
                    form = 6
                if form == 6 and len(local_keys) == 2:
                    # an expression over both of the sub-circuit's keys (which a key map may rename crosswise)
                    su, sv = sympy.Symbol("u"), sympy.Symbol("v")
                    cond = cirq.SympyCondition([su > sv, sympy.Eq(su, sv), su < sv][self.t.draw(3, "rel2")])
                    self.features.add("subcircuit-control-two-local-keys")
                elif form in (0, 6):
                    cond = cirq.KeyCondition(mk)
                elif form == 1:
                    cond = cirq.KeyCondition(mk, index=0)
                elif form == 2:
                    cond = cirq.BitMaskKeyCondition(mk, index=-1, target_value=1, equal_target=False, bitmask=1)
                elif form == 3:
                    cond = cirq.BitMaskKeyCondition(mk, index=0, target_value=1, equal_target=True)
                elif form == 4:
                    cond = cirq.SympyCondition(sympy.Eq(sympy.Symbol(ck), self.t.draw(2, "ctl-val")))
                else:
                    cond = cirq.SympyCondition(sympy.IndexedBase(ck)[0])
                ops.append(base.with_classical_controls(cond))
                self.features.add("classical-control")
                continue
            if kind == 0:
                ops.append(cirq.ry(math.pi / 8 * self._pick(EIGHTHS, "angle")).on(q) if not self.clifford_only
                           else self._pick([cirq.H, cirq.S, cirq.X], "sub-cl").on(q))
            elif kind == 1 and k == 2:
                ops.append(cirq.CNOT(inner[0], inner[1]))
            elif kind == 2:
                lk = self._pick(["u", "v"], "sub-key")
                if lk in local_keys:
                    continue
                local_keys[lk] = (2,)
                inv = (bool(self.t.draw(2, "invert")),) if self.t.chance(1, 3, "invert?") else ()
                ops.append(cirq.measure(q, key=lk, invert_mask=inv))
                bits += 1
            else:
                lk = self._pick(["u", "v"], "sub-key")
                if lk in local_keys:
                    continue
                local_keys[lk] = (2,)
                pa = [self._pick([cirq.X, cirq.Y, cirq.Z], "pauli") for _ in range(k)]
                obs = cirq.DensePauliString(pa, coefficient=-1 if self.t.chance(1, 2, "neg-obs?") else 1)
                ops.append(cirq.PauliMeasurementGate(obs, key=lk).on(*inner))
                bits += 1
                self.features.add("pauli-measure")
        if not ops:
            return None
        reps = 1 + self.t.draw(2, "sub-reps")
        # repetition ids only make a difference (and are only well defined) for two or more repetitions
        use_ids = reps >= 2 and self.t.chance(1, 2, "sub-rep-ids?")
        kmap = {}
        if len(local_keys) == 2 and self.t.chance(1, 2, "sub-keymap-swap?"):
            kmap = {"u": "v", "v": "u"}        # a map may give one key the former name of another
            self.features.add("subcircuit-key-map-swap")
        for lk in local_keys:
            if not kmap and self.t.chance(1, 2, "sub-keymap?"):
                kmap[lk] = self._pick(["m", "n", "a", "b"], "sub-mapped")
        if len(set(kmap.get(lk, lk) for lk in local_keys)) != len(local_keys):
            return None
        if outer_refs & (set(kmap.values()) | set(kmap)):
            return None       # keep "the enclosing circuit's key" unambiguous
        # resulting outer key names and instance counts
        planned = {}
        for i in range(reps):
            for lk, dims in local_keys.items():
                name = kmap.get(lk, lk)
                if use_ids:
                    name = f"{i}:{name}"
                planned[name] = (dims, planned.get(name, (dims, 0))[1] + 1)
        for name, (dims, _cnt) in planned.items():
            if name in self.key_dims and self.key_dims[name] != dims:
                return None
            if name in self.channel_keys:
                return None
        if self.leaf_bits + bits * reps > self.cap:
            return None
        self.leaf_bits += bits * reps
        for name, (dims, cnt) in planned.items():
            if name in self.key_dims:
                self.features.add("repeated-key")
            self.key_dims[name] = dims
            self.key_instances[name] = self.key_instances.get(name, 0) + cnt
        self.features.add("subcircuit")
        if kmap:
            self.features.add("subcircuit-key-map")
        if use_ids:
            self.features.add("subcircuit-rep-ids")
        return cirq.CircuitOperation(
            cirq.FrozenCircuit(ops), repetitions=reps, qubit_map=dict(zip(inner, outer)),
            measurement_key_map=kmap, use_repetition_ids=use_ids)

    def reset(self) -> Optional[cirq.Operation]:
        q = self._pick(self.qudits, "q")
        bits = math.log2(q.dimension)
        if self.leaf_bits + bits > self.cap:
            return None
        self.leaf_bits += bits
        self.features.add("reset")
        self.has_nonunitary_channel = True
        return cirq.ResetChannel(q.dimension).on(q)

    def channel(self) -> Optional[cirq.Operation]:
        """A library channel with tape-drawn parameters (C09)."""
        qs2 = self.qubits_only()
        if not qs2:
            return None
        q = self._pick(qs2, "q")
        # (incl. values next to the special cases 0 and 1, where implementations take shortcuts)
        pr = self._pick([0.125, 0.25, 0.5, 0.0625, 0.75, 1.0, 0.0, 0.999995, 0.000005], "ch-p")
        if self.channel_pool and self.t.chance(1, 6, "reuse-channel-object?"):
            # the very same gate object once more (what an application leaves behind in the object must not matter)
            g0 = self._pick(self.channel_pool, "reused")
            fit = [x for x in self.qudits if x.dimension == cirq.qid_shape(g0)[0]]
            nq = cirq.num_qubits(g0)
            if len(fit) >= nq and all(d == cirq.qid_shape(g0)[0] for d in cirq.qid_shape(g0)):
                tq = self._pick_distinct(fit, nq, "reuse-q")
                bits0 = math.log2(max(2, len(cirq.kraus(g0))))
                if self.leaf_bits + bits0 <= self.cap:
                    self.leaf_bits += bits0
                    self.has_nonunitary_channel = True
                    self.features.update({"channel", "channel-object-reused"})
                    return g0.on(*tq)
        kind = self.t.weighted([3, 2, 2, 2, 2, 2, 2, 2, 2, 1, 2, 2, 1, 2, 2], "ch-kind")
        bits = 2.0
        op = None
        if kind == 0:
            op = cirq.depolarize(min(pr, 0.75)).on(q)
        elif kind == 1:
            op = cirq.amplitude_damp(pr).on(q)
            bits = 1
        elif kind == 2:
            op = cirq.phase_damp(pr).on(q)
            bits = 1
        elif kind == 3:
            op = cirq.bit_flip(min(pr, 1.0)).on(q)
            bits = 1
        elif kind == 4:
            op = cirq.phase_flip(min(pr, 1.0)).on(q)
            bits = 1
        elif kind == 5:
            op = cirq.generalized_amplitude_damp(self._pick([0.5, 0.25, 1.0, 0.0], "gad-p"), pr).on(q)
            bits = 2
        elif kind == 6:
            a, b, c = [self._pick([0.0625, 0.125, 0.25, 0.0], "ad-p") for _ in range(3)]
            op = cirq.asymmetric_depolarize(a, b, c).on(q)
        elif kind == 7:
            # explicit Kraus channel, optionally keyed
            u = self._unitary_matrix(2)
            k0 = math.sqrt(1 - pr) * np.eye(2)
            k1 = math.sqrt(pr) * u
            key = self._pick(["k", "l"], "ch-key") if (self.keyed_channels and self.t.chance(1, 2, "ch-keyed?")) else None
            if key is not None and (key in self.key_dims or key in self.channel_keys):
                key = None      # a channel key is used once: repeated channel keys are not defined
            if key is not None:
                self.channel_keys.add(key)
            op = cirq.KrausChannel([k0, k1], key=key).on(q)
            bits = 1
            if key:
                self.features.add("keyed-channel")
        elif kind == 8:
            u = self._unitary_matrix(2)
            key = self._pick(["k", "l"], "ch-key") if (self.keyed_channels and self.t.chance(1, 2, "ch-keyed?")) else None
            if key is not None and (key in self.key_dims or key in self.channel_keys):
                key = None
            if key is not None:
                self.channel_keys.add(key)
            mix = [(1 - pr, np.eye(2)), (pr, u)]
            if self.t.chance(1, 2, "zero-weight-branch?"):
                # a branch of weight zero in front of a live one: the recorded index counts all listed branches
                mix.insert(self.t.draw(2, "zero-at"), (0.0, cirq.unitary(cirq.X)))
                self.features.add("mixture-with-zero-weight-branch")
            op = cirq.MixedUnitaryChannel(mix, key=key).on(q)
            bits = 1
            if key:
                self.features.add("keyed-channel")
        elif kind == 13:
            # a channel given by stored complex Kraus matrices on two qubits or on a qutrit (the general
            # tensor-contraction path of apply_channel)
            if len(qs2) < 2:
                return None            # (KrausChannel itself is defined over qubits only)
            tq = self._pick_distinct(qs2, 2, "q2")
            d = 4
            u1, u2 = self._unitary_matrix(d), self._unitary_matrix(d)
            ph = np.diag(np.exp(1j * np.pi / 2 * np.arange(d) / d))
            g0 = cirq.KrausChannel([math.sqrt(1 - pr) * (u1 @ ph), math.sqrt(pr) * u2])
            op = g0.on(*tq)
            bits = 1
            self.channel_pool.append(g0)
            self.features.add("stored-kraus-multi")
        elif kind == 14:
            # "apply with probability p" around a channel that hands out its stored matrices
            u = self._unitary_matrix(2)
            inner = cirq.KrausChannel([math.sqrt(0.75) * np.eye(2, dtype=complex), math.sqrt(0.25) * u])
            g0 = inner.with_probability(pr if 0 < pr < 1 else 0.5)
            op = g0.on(q)
            bits = 2
            self.channel_pool.append(g0)
            self.features.add("random-gate-channel-of-stored-kraus")
        elif kind == 11:
            # a mixture applied only when other qudits hold given values (controlled_by accepts mixtures)
            others = [x for x in self.qudits if x != q]
            if not others:
                return None
            nctl = 1 + (self.t.draw(2, "n-controls") if len(others) >= 2 else 0)
            ctls = self._pick_distinct(others, nctl, "ctl-q")
            vals = [self.t.draw(c.dimension, "ctl-val") for c in ctls]
            sub = self._pick([cirq.bit_flip(min(pr, 1.0)), cirq.phase_flip(min(pr, 1.0)), cirq.depolarize(min(pr, 0.75)),
                              cirq.X.with_probability(pr if pr > 0 else 0.5)], "ctl-ch")
            op = sub.on(q).controlled_by(*ctls, control_values=vals)
            bits = 2.0 if "depolarize" in repr(sub) else 1.0
            self.features.add("controlled-mixture")
        elif kind == 12:
            # Pauli errors on a pair, given as a dictionary of Pauli strings
            if len(qs2) < 2:
                return None
            a, b = self._pick_distinct(qs2, 2, "q2")
            names = [self._pick(["XX", "ZI", "IY", "YZ", "XI", "ZZ"], "pauli-str") for _ in range(2)]
            if names[0] == names[1]:
                names = names[:1]
            w = [self._pick([0.0625, 0.125, 0.25], "ad-p") for _ in names]
            probs = dict(zip(names, w))
            probs["II"] = 1.0 - sum(probs.values())
            op = cirq.asymmetric_depolarize(error_probabilities=probs).on(a, b)
            bits = math.log2(len(probs))
            self.features.add("pauli-string-errors")
        elif kind == 10:
            us = [self._pick([cirq.H, cirq.Z, cirq.S, cirq.T, cirq.X, cirq.Y ** 0.5], "ng-u")
                  for _ in range(1 + self.t.draw(2, "ng-n"))]
            ch = self._pick([cirq.depolarize(min(pr, 0.75)), cirq.amplitude_damp(pr), cirq.phase_damp(pr),
                             cirq.bit_flip(pr)], "ng-ch")
            tail = self._pick([None, cirq.S, cirq.H], "ng-tail")
            op = NoisyGate(us, ch, tail).on(q)
            bits = 2.0 if "depolarize" in repr(ch) else 1.0
            self.features.add("composite-noisy-gate")
        else:
            if len(qs2) >= 2:
                a, b = self._pick_distinct(qs2, 2, "q2")
                op = cirq.depolarize(min(pr, 0.9375), n_qubits=2).on(a, b)
                bits = 4
            else:
                op = cirq.X.on(q).with_probability(pr) if pr not in (0.0,) else cirq.X.on(q).with_probability(0.5)
                bits = 1
        if self.leaf_bits + bits > self.cap:
            return None
        self.leaf_bits += bits
        self.has_nonunitary_channel = True
        self.features.add("channel")
        return op

    # -- whole circuit --------------------------------------------------------------------------------
    def circuit(self) -> cirq.Circuit:
        n_ops = 2 + self.t.draw(self.max_ops - 1, "n-ops")
        c = cirq.Circuit()
        if not self.clifford_only and self.allow_qubitless and self.t.chance(1, 40, "qubit-less-circuit?"):
            # a circuit of operations on no qubits only: the whole system is the qubit-less part of the state
            for _ in range(1 + self.t.draw(2, "n-phases")):
                c.append(self.global_phase())
            self.kinds.append("global-phase")
            self.features.add("qubit-less-circuit")
            return c
        # start from an asymmetric product state so that swapped columns / wrong marginals show
        if not self.clifford_only and self.t.chance(3, 4, "asymmetric-start?"):
            for q in self.qubits_only():
                c.append(cirq.ry(math.pi / 8 * self._pick(EIGHTHS, "angle")).on(q))
        weights = [5, 4,
                   4 if self.allow_measure else 0,
                   3 if self.allow_control else 0,
                   1 if self.allow_reset else 0,
                   1 if (self.allow_pauli_measure and self.allow_measure) else 0,
                   4 if self.allow_channels else 0,
                   2 if self.allow_subcircuits else 0,
                   1,
                   1]
        makers = [self.single, self.double, self.measure, self.controlled, self.reset, self.pauli_measure, self.channel,
                  self.subcircuit, self.global_phase, self.entangled_swap]
        names = ["1q", "2q", "measure", "controlled", "reset", "pauli-measure", "channel", "subcircuit", "global-phase",
                 "entangled-swap"]
        for _ in range(n_ops):
            k = self.t.weighted(weights, "op-kind")
            op = makers[k]()
            if op is None:
                continue
            self.kinds.append(names[k])
            if self.t.chance(1, 6, "new-moment?"):
                c.append(op, strategy=cirq.InsertStrategy.NEW)
            else:
                c.append(op)
        return c
