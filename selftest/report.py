#!/venv/bin/python
"""report.py <sensitivity-log> ... : markdown tables (mutant / seeded change -> classes that caught it)."""
import json, os, re, sys
VERIF = os.path.dirname(os.path.dirname(os.path.abspath(__file__)))
rows = {}
for path in sys.argv[1:]:
    for line in open(path, errors="replace"):
        m = re.search(r"mutant (\S+) \[(C\d\d)\]: rc=(\d+) classes=\[(.*?)\] expected=(\S+) replay_reproduces=(\S+) -> (\w+)", line)
        if m:
            name, prop, rc, classes, exp, rep, verdict = m.groups()
            rows[name] = (prop, [c.strip("' ") for c in classes.split(",") if c.strip()], verdict, rep)
            continue
        m = re.search(r"mutant (\S+) \[(C\d\d)\]: rc=0 -> missed \(documented", line)
        if m:
            rows[m.group(1)] = (m.group(2), [], "missed (documented, DESIGN §9)", "-")
            continue
        m = re.search(r"mutant (\S+) \[(C\d\d)\] \(harmless variation, must NOT alarm\): (\w+)", line)
        if m:
            rows[m.group(1)] = (m.group(2), [], "quiet" if m.group(3) == "quiet" else "ALARM", "-")
def desc(name):
    if name.startswith("seeded/"):
        mj = json.load(open(os.path.join(VERIF, os.path.dirname(name), "meta.json")))
        return (mj.get("title") or mj.get("what_breaks") or "")[:110].replace("|", "/"), (mj.get("needs_to_manifest") or "")[:140].replace("|", "/").replace("\n", " ")
    return "", ""
print("| change | property | caught by (violation classes) | verdict |\n|---|---|---|---|")
for name in sorted(rows):
    prop, classes, verdict, rep = rows[name]
    short = name.replace("selftest/mutants/", "").replace(".patch", "").replace("/patch.diff", "")
    t, need = desc(name)
    extra = f" — {t}" if t else ""
    print(f"| `{short}`{extra} | {prop} | {', '.join(classes) or '–'} | {verdict}{' (replay reproduces)' if rep == 'True' else ''} |")
